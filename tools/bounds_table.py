#!/venv/bin/python
"""prints, per check and tier, the bounds the check declares (describe(tier)['bounds']) as a markdown table"""
import importlib
import json
import sys

sys.path.insert(0, "/verif")
print("| prop | tier | bounds (as declared by the check) |")
print("|---|---|---|")
for i in range(1, 21):
    pid = f"C{i:02d}"
    mod = importlib.import_module("checks." + pid.lower())
    for tier in ("quick", "thorough"):
        b = mod.describe(tier)["bounds"]
        print(f"| {pid} | {tier} | `{json.dumps(b, ensure_ascii=False)}` |")
