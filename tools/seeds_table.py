#!/usr/bin/env python3
"""prints the markdown table of seeded changes and which check caught them (from seeded/*/meta.json + seeded/RESULTS.json)"""
import glob
import json
import os
import re

res = json.load(open("/verif/seeded/RESULTS.json"))
print("| seed | breaks | origin | needs, in order to manifest | reported by (quick tier): violation kinds |")
print("|---|---|---|---|---|")
for d in sorted(glob.glob("/verif/seeded/*/meta.json")):
    m = json.load(open(d))
    sid = m["id"]
    r = res.get(sid, {}).get("quick", {})
    hits = []
    for pid, v in sorted(r.items()):
        if v.get("rc") == 1:
            kinds = ""
            if v.get("kinds"):
                mm = re.search(r"\{(.*)\}", v["kinds"][0])
                if mm:
                    kinds = ", ".join(k.split(":")[0].strip().strip("'") for k in mm.group(1).split(", ")[:3])
            hits.append(f"**{pid}** ({kinds})" if kinds else f"**{pid}**")
        elif v.get("rc") not in (0, None):
            hits.append(f"{pid}: exit {v.get('rc')}")
    origin = "sub-agent r1" if re.match(r"C\d\d-[AB]$", sid) else ("sub-agent r2" if re.match(r"C\d\d-[CD]$", sid) else ("sub-agent r3" if sid.startswith("R3-") else ("sub-agent r4" if re.match(r"C\d\d-[EF]$", sid) else ("sub-agent r5" if sid.startswith("R5-") else ("sub-agent r6" if sid.startswith("R6-") else ("sub-agent r7" if sid.startswith("R7-") else ("sub-agent r8" if sid.startswith("R8-") else "hand-written")))))))
    print(f"| {sid} | {m['breaks_property']} | {origin} | {m['needs_to_manifest']} | {'; '.join(hits) if hits else 'NOT REPORTED'} |")
