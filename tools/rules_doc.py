#!/venv/bin/python
"""prints DESIGN section 4 ("what each check enumerates, as built") from the checks' own describe() texts"""
import importlib
import json
import sys

sys.path.insert(0, "/verif")
props = {json.loads(l)["id"]: json.loads(l) for l in open("/verif/properties.jsonl")}
for i in range(1, 21):
    pid = f"C{i:02d}"
    mod = importlib.import_module("checks." + pid.lower())
    q, t = mod.describe("quick"), mod.describe("thorough")
    print(f"### {pid} — {props[pid]['title']}  ({mod.ENGINE})\n")
    print(f"* **Enumerated and oracle (thorough tier):** {t['rule']}")
    print(f"* **Bounds:** quick `{json.dumps(q['bounds'], ensure_ascii=False)}`; thorough `{json.dumps(t['bounds'], ensure_ascii=False)}`")
    if t.get("assumptions"):
        print("* **Assumptions:** " + "; ".join(t["assumptions"]))
    print()
