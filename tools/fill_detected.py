#!/venv/bin/python
"""copies, for every seed, which quick checks reported it (seeded/RESULTS.json) into seeded/<id>/meta.json 'detected_by'"""
import glob
import json

res = json.load(open("/verif/seeded/RESULTS.json"))
missing = []
for path in sorted(glob.glob("/verif/seeded/*/meta.json")):
    m = json.load(open(path))
    r = res.get(m["id"], {}).get("quick", {})
    det = [{"check": pid, "tier": "quick", "kinds": (v.get("kinds") or [""])[0].replace("violation kinds: ", "")[:300]}
           for pid, v in sorted(r.items()) if v.get("rc") == 1]
    own = [d for d in det if d["check"] == m["breaks_property"]]
    if not own:
        missing.append(m["id"])
    m["detected_by"] = own + [d for d in det if d["check"] != m["breaks_property"]]
    json.dump(m, open(path, "w"), indent=1, ensure_ascii=False)
print("seeds:", len(glob.glob("/verif/seeded/*/meta.json")), "not reported by their own property's quick check:", missing)
