#!/venv/bin/python
"""Regenerates the generated blocks of /verif/DESIGN.md (between <!-- BEGIN name --> and <!-- END name --> markers):
  seeds-table   table of all seeded changes and the checks that report them (tools/seeds_table.py)
  as-built      per check: enumerated space + oracle (the checks' own describe() texts), bounds per tier
  evidence      what the last quick / thorough run of every check covered (evidence/*.json, evidence/thorough/*.json)"""
import glob
import json
import re
import subprocess

D = "/verif/DESIGN.md"


def out(cmd):
    return subprocess.run(cmd, capture_output=True, text=True, check=True, cwd="/verif").stdout


def evidence_table(pattern):
    rows = []
    for p in sorted(glob.glob(pattern)):
        e = json.load(open(p))
        c = e["coverage"]
        rows.append(f"| {e['property_id']} | {e['tier']} | {c['engine'].split('-')[0]} | {c['evaluations']:,} | {c['states']:,} | {c['transitions']:,} | "
                    f"{c['traces_validated_against_impl']:,} | {c['distinct_nontrivial']:,} | {c['partitions_completed']}/{c['partitions_planned']} | "
                    f"{'yes' if c['exhaustive'] else 'NO (capped)'} | {e['wall_s']:.0f} s | {e.get('violations', 0)} |")
    head = ("| prop | tier | engine | executions | states | transitions | traces replayed on the implementation | non-trivial | partitions | "
            "bounds completed | wall | violations |\n|---|---|---|---|---|---|---|---|---|---|---|---|\n")
    return head + "\n".join(rows) + "\n"


blocks = {
    "seeds-table": out(["tools/seeds_table.py"]),
    "as-built": out(["tools/rules_doc.py"]),
    "evidence": "**Quick tier (last run on /repo):**\n\n" + evidence_table("/verif/evidence/C*.json") +
                "\n**Thorough tier (last run on /repo, `VERIF_EVIDENCE_DIR=/verif/evidence/thorough`):**\n\n" +
                evidence_table("/verif/evidence/thorough/C*.json"),
}
s = open(D, encoding="utf-8").read()
for name, text in blocks.items():
    pat = re.compile(rf"(<!-- BEGIN {name} -->\n).*?(<!-- END {name} -->)", re.S)
    if not pat.search(s):
        print("marker missing:", name)
        continue
    s = pat.sub(lambda m: m.group(1) + text + m.group(2), s)
open(D, "w", encoding="utf-8").write(s)
print("DESIGN.md regenerated blocks:", ", ".join(blocks))
