#!/venv/bin/python
"""Runs registered checks against the seeded changes in /verif/seeded/<id>/ - each in its own scratch worktree of /repo
(VERIF_REPO points the check at it), several in parallel.  usage: tools/run_seeds.py [--tier quick] [--all-checks] [ids...]
Writes /verif/seeded/RESULTS.json (detected_by per seed)."""
import concurrent.futures as cf
import json
import os
import subprocess
import sys

VERIF = "/verif"


def run_seed(sid, tier, all_checks, jobs):
    d = f"{VERIF}/seeded/{sid}"
    meta = json.load(open(d + "/meta.json"))
    wt = f"/tmp/wt/S-{sid}"
    subprocess.run(["git", "-C", "/repo", "worktree", "remove", "--force", wt], capture_output=True)
    subprocess.run(["git", "-C", "/repo", "worktree", "add", "-q", "--detach", wt, "HEAD"], check=True, capture_output=True)
    res = {}
    try:
        subprocess.run(["git", "-C", wt, "apply", d + "/patch.diff"], check=True, capture_output=True)
        props = [meta["breaks_property"]]
        if all_checks:
            man = json.load(open(VERIF + "/MANIFEST.json"))
            props += [c["property_id"] for c in man["checks"] if c["property_id"] not in props]
        for pid in props:
            if not os.path.exists(f"{VERIF}/checks/{pid.lower()}.py"):
                res[pid] = {"rc": None, "note": "no check yet"}
                continue
            env = dict(os.environ, VERIF_REPO=wt, VERIF_JOBS=str(jobs), VERIF_EVIDENCE_DIR="/tmp/wt/ev")  # never overwrite the registered evidence
            p = subprocess.run([VERIF + "/check", pid, "--tier", tier], cwd=VERIF, env=env, capture_output=True, text=True)
            viol = [l for l in p.stdout.splitlines() if l.startswith("VIOLATION")]
            kinds = [l.strip() for l in p.stderr.splitlines() if l.strip().startswith("violation kinds")]
            res[pid] = {"rc": p.returncode, "violation_lines": len(viol), "kinds": kinds[:1],
                        "summary": p.stdout.strip().splitlines()[-1][:300] if p.stdout.strip() else p.stderr[-300:]}
    finally:
        subprocess.run(["git", "-C", "/repo", "worktree", "remove", "--force", wt], capture_output=True)
    return sid, res


def main():
    args = sys.argv[1:]
    tier = "quick"
    all_checks = False
    if "--tier" in args:
        i = args.index("--tier")
        tier = args[i + 1]
        del args[i:i + 2]
    if "--all-checks" in args:
        all_checks = True
        args.remove("--all-checks")
    ids = args or sorted(x for x in os.listdir(VERIF + "/seeded") if os.path.isfile(f"{VERIF}/seeded/{x}/meta.json"))
    par = 4
    out_path = VERIF + "/seeded/RESULTS.json"
    results = json.load(open(out_path)) if os.path.exists(out_path) else {}
    with cf.ThreadPoolExecutor(par) as ex:
        for sid, res in ex.map(lambda s: run_seed(s, tier, all_checks, max(2, (os.cpu_count() or 4) // par)), ids):
            results.setdefault(sid, {}).setdefault(tier, {}).update(res)
            own = res.get(sid[:3], {})
            print(sid, "->", {k: v["rc"] for k, v in res.items()}, own.get("kinds", ""), flush=True)
            json.dump(results, open(out_path, "w"), indent=1, sort_keys=True)


if __name__ == "__main__":
    main()
