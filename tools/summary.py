#!/usr/bin/env python3
"""prints a markdown table from /verif/evidence/*.json (what the last run of each check covered)"""
import glob
import json

rows = []
for p in sorted(glob.glob("/verif/evidence/C*.json")):
    e = json.load(open(p))
    c = e["coverage"]
    rows.append(f"| {e['property_id']} | {e['tier']} | {c['engine'].split('-')[0]} | {c['evaluations']:,} | {c['states']:,} | {c['transitions']:,} | "
                f"{c['traces_validated_against_impl']:,} | {c['distinct_nontrivial']:,} | {c['partitions_completed']}/{c['partitions_planned']} | "
                f"{'yes' if c['exhaustive'] else 'NO (capped)'} | {e['wall_s']:.0f} s | {e.get('violations', 0)} |")
print("| prop | tier | engine | evaluations | states | transitions | traces replayed | non-trivial | partitions | exhaustive | wall | violations |")
print("|---|---|---|---|---|---|---|---|---|---|---|---|")
print("\n".join(rows))
