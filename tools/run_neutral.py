#!/venv/bin/python
"""Runs ALL registered quick checks against every semantically neutral refactoring in /verif/seeded/neutral/*.diff (each in a
scratch worktree).  Every check must stay silent.  Writes /verif/seeded/neutral/RESULTS.json"""
import concurrent.futures as cf
import glob
import json
import os
import subprocess
import sys

VERIF = "/verif"


def run(path):
    name = os.path.basename(path)[:-5]
    wt = f"/tmp/wt/N-{name}"
    subprocess.run(["git", "-C", "/repo", "worktree", "remove", "--force", wt], capture_output=True)
    subprocess.run(["git", "-C", "/repo", "worktree", "add", "-q", "--detach", wt, "HEAD"], check=True, capture_output=True)
    res = {}
    try:
        subprocess.run(["git", "-C", wt, "apply", path], check=True, capture_output=True)
        p = subprocess.run(["/venv/bin/python", "-m", "pytest", "-q", "-p", "no:cacheprovider"], cwd=wt,
                           env=dict(os.environ, PYTHONPATH=wt + "/src"), capture_output=True, text=True)
        res["suite"] = p.stdout.strip().splitlines()[-1] if p.stdout.strip() else "?"
        man = json.load(open(VERIF + "/MANIFEST.json"))
        only = sys.argv[1:]
        for c in man["checks"]:
            pid = c["property_id"]
            if only and pid not in only:
                continue
            q = subprocess.run([VERIF + "/check", pid, "--tier", "quick"], cwd=VERIF,
                               env=dict(os.environ, VERIF_REPO=wt, VERIF_JOBS="4", VERIF_EVIDENCE_DIR="/tmp/wt/ev"), capture_output=True, text=True)
            res[pid] = q.returncode
            if q.returncode != 0:
                res[pid + "_detail"] = (q.stdout[-600:] + q.stderr[-900:])
    finally:
        subprocess.run(["git", "-C", "/repo", "worktree", "remove", "--force", wt], capture_output=True)
    return name, res


def main():
    paths = sorted(glob.glob(VERIF + "/seeded/neutral/*.diff"))
    only = os.environ.get("NEUTRAL_ONLY")  # comma separated name prefixes
    if only:
        paths = [p for p in paths if any(os.path.basename(p).startswith(x) for x in only.split(","))]
    rp = VERIF + "/seeded/neutral/RESULTS.json"
    out = json.load(open(rp)) if os.path.exists(rp) else {}
    with cf.ThreadPoolExecutor(4) as ex:
        for name, res in ex.map(run, paths):
            out.setdefault(name, {}).update(res)
            alarms = [k for k, v in res.items() if isinstance(v, int) and v != 0]
            print(name, res.get("suite"), "ALARMS:" if alarms else "silent", alarms, flush=True)
            json.dump(out, open(VERIF + "/seeded/neutral/RESULTS.json", "w"), indent=1, sort_keys=True)


if __name__ == "__main__":
    main()
