#!/venv/bin/python
"""Second wave of deliberate property-breaking changes (hand-written from DESIGN §9).  For each candidate: apply in a scratch
worktree, run the 532-test suite; suite-green candidates are kept as /verif/seeded/W2-<id>/ (patch.diff + meta.json)."""
import json
import os
import subprocess

WT = "/tmp/wt/W2"
P = "src/ahbicht/"
C = [
 ("C01-w1", "C01", "juxtaposition alternative moved above AND (then_also binds weaker than U)", [(P + "expressions/condition_expression_parser.py",
   '''            | expression "U"i expression -> and_composition
            | expression "∧" expression -> and_composition
            | expression expression -> then_also_composition
''', '''            | expression expression -> then_also_composition
            | expression "U"i expression -> and_composition
            | expression "∧" expression -> and_composition
''')]),
 ("C01-w2", "C01", "the X operator terminal made case-sensitive", [(P + "expressions/condition_expression_parser.py", '| expression "X"i expression', '| expression "X" expression')]),
 ("C01-w3", "C01", "the symbol alternative for XOR dropped", [(P + "expressions/condition_expression_parser.py", '            | expression "⊻" expression -> xor_composition\n', '')]),
 ("C02-w1", "C02", "UnexpectedCharacters no longer converted by the condition parser", [(P + "expressions/condition_expression_parser.py", "    except (UnexpectedEOF, UnexpectedCharacters, TypeError) as eof:", "    except (UnexpectedEOF, TypeError) as eof:")]),
 ("C02-w2", "C02", "CONDITION_KEY widened to word characters", [(P + "expressions/condition_expression_parser.py", "CONDITION_KEY: INT //", "CONDITION_KEY: /\\w+/ //")]),
 ("C02-w3", "C02", "WS no longer ignored between tokens of a condition expression only at line level: %ignore of newlines dropped", [(P + "expressions/condition_expression_parser.py", "%import common.WS\n%ignore WS", "%import common.WS_INLINE\n%ignore WS_INLINE")]),
 ("C03-w1", "C03", "NEUTRAL is an identity of XOR on the right side only", [(P + "models/condition_nodes.py", '''    def __xor__(self, other):
        if other == ConditionFulfilledValue.NEUTRAL:
            return self
        if self == ConditionFulfilledValue.NEUTRAL:
            return other
''', '''    def __xor__(self, other):
        if other == ConditionFulfilledValue.NEUTRAL:
            return self
''')]),
 ("C04-w1", "C04", "a NEUTRAL outcome is reported as conditional", [(P + "expressions/requirement_constraint_expression_evaluation.py", '''        requirement_constraints_fulfilled = True
        requirement_is_conditional = False
''', '''        requirement_constraints_fulfilled = True
''')]),
 ("C04-w2", "C04", "an UNKNOWN outcome is reported as unfulfilled", [(P + "expressions/requirement_constraint_expression_evaluation.py", '''        requirement_constraints_fulfilled = None
        requirement_is_conditional = None
''', '''        requirement_is_conditional = None
''')]),
 ("C06-w1", "C06", "neutral/boolean mix only detected when the neutral operand is on the left", [(P + "expressions/requirement_constraint_expression_evaluation.py", '''            or (
                right.conditions_fulfilled == ConditionFulfilledValue.NEUTRAL
                and left.conditions_fulfilled != ConditionFulfilledValue.NEUTRAL
            )
        ):''', '''        ):''')]),
 ("C06-w2", "C06", "neutral/boolean mix tolerated when the boolean operand is UNKNOWN", [(P + "expressions/requirement_constraint_expression_evaluation.py", '''            left.conditions_fulfilled == ConditionFulfilledValue.NEUTRAL
            and right.conditions_fulfilled != ConditionFulfilledValue.NEUTRAL
            or (''', '''            left.conditions_fulfilled == ConditionFulfilledValue.NEUTRAL
            and right.conditions_fulfilled not in (ConditionFulfilledValue.NEUTRAL, ConditionFulfilledValue.UNKNOWN)
            or (''')]),
 ("C07-w1", "C07", "_connect joins the other operand's expression without brackets", [(P + "expressions/expression_builder.py", '''            self._expression = f"{prefix} ({other.format_constraints_expression})"''', '''            self._expression = f"{prefix} {other.format_constraints_expression}"''')]),
 ("C07-w2", "C07", "_connect does not bracket its own (left) expression", [(P + "expressions/expression_builder.py", '''            prefix = f"({self._expression}) {operator_character}"''', '''            prefix = f"{self._expression} {operator_character}"''')]),
 ("C08-w1", "C08", "lor keeps the message when exactly one side is unfulfilled", [(P + "expressions/expression_builder.py", '''            self._expression = f"'{self._expression}' oder '{other.error_message}'"
        else:
            self._expression = None''', '''            self._expression = f"'{self._expression}' oder '{other.error_message}'"
        elif self.format_constraint_fulfilled is True:
            self._expression = None''')]),
 ("C08-w2", "C08", "land loses the left message when the right side is unfulfilled", [(P + "expressions/expression_builder.py", '''                self._expression = f"'{self._expression}' und '{other.error_message}'"''', '''                self._expression = other.error_message''')]),
 ("C08-w3", "C08", "xor of two fulfilled constraints carries no message", [(P + "expressions/expression_builder.py", '''            self._expression = "Zwei exklusive Formatdefinitionen dürfen nicht gleichzeitig erfüllt sein"''', '''            self._expression = None''')]),
 ("C09-w1", "C09", "falls back to the first instead of the last part", [(P + "expressions/ahb_expression_evaluation.py", "        return results[-1]", "        return results[0]")]),
 ("C09-w2", "C09", "the bare indicator after modal mark parts is dropped from the selection", [(P + "expressions/ahb_expression_evaluation.py", '''        results = await gather_if_necessary(list_of_single_requirement_indicator_expressions)
''', '''        results = await gather_if_necessary(list_of_single_requirement_indicator_expressions)
        if len(results) > 1 and results[-1].requirement_constraint_evaluation_result.format_constraints_expression is None and (
            results[-1].requirement_constraint_evaluation_result.requirement_is_conditional is False
        ):
            results = results[:-1]
''')]),
 ("C10-w1", "C10", "placeholder replacement stops after the first hit of a coroutine", [(P + "expressions/expression_resolver.py", '''                if child == coro:
                    sub_tree.children[child_index] = sub_result''', '''                if child == coro:
                    sub_tree.children[child_index] = sub_result
                    break''')]),
 ("C10-w2", "C10", "UB3 expanded without the division requirement constraints", [(P + "expressions/expression_resolver.py", '''parse_condition_expression_to_tree("[932][492]X[934][493]")''', '''parse_condition_expression_to_tree("[932]X[934]")''')]),
 ("C10-w3", "C10", "an unknown package is silently replaced by nothing (left as package node)", [(P + "expressions/expression_resolver.py", '''        if not resolved_package.has_been_resolved_successfully():
            raise NotImplementedError(f"The package '{package_key_token.value}' could not be resolved by {resolver}")''', '''        if not resolved_package.has_been_resolved_successfully():
            return Tree("package", [package_key_token])''')]),
 ("C11-w1", "C11", "AHB parser cache keyed by the stripped expression", [(P + "expressions/ahb_expression_parser.py", "        parsed_tree = _parser.parse(ahb_expression)", "        parsed_tree = _parser.parse(ahb_expression)\n        parsed_tree = _NORMALISED.setdefault(ahb_expression.replace(' ', ''), parsed_tree)"), (P + "expressions/ahb_expression_parser.py", '_parser = Lark(GRAMMAR, start="ahb_expression")', '_parser = Lark(GRAMMAR, start="ahb_expression")\n_NORMALISED = {}')]),
 ("C12-w1", "C12", "requirement constraint results zipped with the SORTED key list", [(P + "content_evaluation/rc_evaluators.py", "        result = dict(zip(condition_keys, results))", "        result = dict(zip(sorted(condition_keys), results))")]),
 ("C12-w2", "C12", "hints paired with keys in reverse order of a set", [(P + "expressions/hints_provider.py", "        for key, value in zip(condition_keys, results):", "        for key, value in zip(sorted(set(condition_keys), key=condition_keys.index), results):")]),
 ("C13-w1", "C13", "children of a forbidden group are still visited", [(P + "validation/validation.py", "    if segment_group_validation.requirement_validation is not RequirementValidationValue.IS_FORBIDDEN:\n        tasks: List[Awaitable[List[ValidationResultInContext]]] = []", "    if True:\n        tasks: List[Awaitable[List[ValidationResultInContext]]] = []")]),
 ("C13-w2", "C13", "segments reported before sub groups", [(P + "validation/validation.py", '''        # validation of child_segment_group s
        if segment_group.segment_groups:
            for child_segment_group in segment_group.segment_groups:
                tasks.append(
                    validate_segment_group(
                        child_segment_group,
                        segment_group_validation.requirement_validation,
                        soll_is_required,
                    )
                )

''', ''), (P + "validation/validation.py", '''        validation_results_of_children: List[List[ValidationResultInContext]] = await asyncio.gather(*tasks)
''', '''        if segment_group.segment_groups:
            for child_segment_group in segment_group.segment_groups:
                tasks.append(
                    validate_segment_group(
                        child_segment_group,
                        segment_group_validation.requirement_validation,
                        soll_is_required,
                    )
                )
        validation_results_of_children: List[List[ValidationResultInContext]] = await asyncio.gather(*tasks)
''')]),
 ("C13-w3", "C13", "an optional parent no longer downgrades a required child", [(P + "validation/validation.py", '''        if child_level_requirement is RequirementValidationValue.IS_REQUIRED:
            return RequirementValidationValue.IS_OPTIONAL  # TODO''', '''        if child_level_requirement is RequirementValidationValue.IS_FORBIDDEN:
            return RequirementValidationValue.IS_OPTIONAL  # TODO''')]),
 ("C14-w1", "C14", "the soll flag is dropped for child segments of a group", [(P + "validation/validation.py", '''                    validate_segment(
                        segment,
                        segment_group_validation.requirement_validation,
                        soll_is_required,
                    )''', '''                    validate_segment(
                        segment,
                        segment_group_validation.requirement_validation,
                    )''')]),
 ("C15-w1", "C15", "the ContextVar is set in validate_segment while the tasks are created", [(P + "validation/validation.py", '''        for data_element in segment.data_elements:
            tasks.append(''', '''        for data_element in segment.data_elements:
            fc_evaluators.text_to_be_evaluated_by_format_constraint.set(data_element.entered_input)
            tasks.append('''), (P + "validation/validation.py", '''    fc_evaluators.text_to_be_evaluated_by_format_constraint.set(data_element.entered_input)
    try:
        evaluation_result = await evaluate_ahb_expression_tree(expression_tree)
    except InvalidExpressionError as invalid_expr_error:
        validation_logger.warning(
            "The expression '%s' @ '%s' is invalid. Returning IS_OPTIONAL",''', '''    try:
        evaluation_result = await evaluate_ahb_expression_tree(expression_tree)
    except InvalidExpressionError as invalid_expr_error:
        validation_logger.warning(
            "The expression '%s' @ '%s' is invalid. Returning IS_OPTIONAL",''')]),
 ("C16-w1", "C16", "invalid value pool entries are skipped instead of offered", [(P + "validation/validation.py", '''                    evaluation_result = AhbExpressionEvaluationResult(
                        format_constraint_evaluation_result=FormatConstraintEvaluationResult(
                            format_constraints_fulfilled=True, error_message=None
                        ),
                        requirement_constraint_evaluation_result=RequirementConstraintEvaluationResult(
                            requirement_constraints_fulfilled=True,''', '''                    evaluation_result = AhbExpressionEvaluationResult(
                        format_constraint_evaluation_result=FormatConstraintEvaluationResult(
                            format_constraints_fulfilled=True, error_message=None
                        ),
                        requirement_constraint_evaluation_result=RequirementConstraintEvaluationResult(
                            requirement_constraints_fulfilled=False,''')]),
 ("C16-w2", "C16", "an invalid segment-level expression makes the node required instead of optional", [(P + "validation/validation.py", '''            hints=invalid_expr_error.error_message, requirement_validation=RequirementValidationValue.IS_OPTIONAL
        )''', '''            hints=invalid_expr_error.error_message, requirement_validation=RequirementValidationValue.IS_REQUIRED
        )''')]),
 ("C17-w1", "C17", "entries whose outcome is not False (incl. UNKNOWN) are offered", [(P + "validation/validation.py", "                if evaluation_result.requirement_constraint_evaluation_result.requirement_constraints_fulfilled:\n", "                if evaluation_result.requirement_constraint_evaluation_result.requirement_constraints_fulfilled is not False:\n")]),
 ("C17-w2", "C17", "an unexpected value is not flagged", [(P + "validation/validation.py", "            fc_validation_result = False  # we reuse", "            fc_validation_result = True  # we reuse")]),
 ("C18-w1", "C18", "requirement constraint range ends at 498", [(P + "condition_node_distinction.py", "    if 1 <= int(condition_key) <= 499:", "    if 1 <= int(condition_key) < 499:")]),
 ("C18-w2", "C18", "keys sorted lexicographically", [(P + "models/categorized_key_extract.py", "        self.requirement_constraint_keys.sort(key=int)", "        self.requirement_constraint_keys.sort()")]),
 ("C18-w3", "C18", "2500 accepted as repeatability constraint", [(P + "condition_node_distinction.py", "    if 2000 <= int(condition_key) <= 2499:", "    if 2000 <= int(condition_key) <= 2500:")]),
 ("C19-w1", "C19", "TokenSchema loses the token type on load", [(P + "json_serialization/tree_schema.py", '        return Token(data["type"], data["value"])', '        return Token("CONDITION_KEY" if data["value"].isdigit() else data["type"], data["value"])')]),
 ("C19-w2", "C19", "error_message of a FormatConstraintEvaluationResult is dumped only if truthy", [(P + "models/evaluation_results.py", "    error_message = fields.String(allow_none=True, load_default=None)", "    error_message = fields.Function(lambda obj: obj.error_message or None, deserialize=lambda v: v, allow_none=True, load_default=None)")]),
 ("C20-w1", "C20", "fixed +01:00 instead of Europe/Berlin", [(P + "content_evaluation/german_strom_and_gas_tag.py", "    german_local_datetime = date_time.astimezone(berlin)", "    german_local_datetime = date_time.astimezone(timezone_fixed)"), (P + "content_evaluation/german_strom_and_gas_tag.py", 'berlin = timezone("Europe/Berlin")', 'berlin = timezone("Europe/Berlin")\nfrom datetime import timezone as _tz  # noqa\ntimezone_fixed = _tz(timedelta(hours=1))')]),
 ("C20-w2", "C20", "the seconds are not compared for the Gastag", [(P + "content_evaluation/german_strom_and_gas_tag.py", "    return german_local_time.hour == 6 and german_local_time.minute == 0 and german_local_time.second == 0", "    return german_local_time.hour == 6 and german_local_time.minute == 0")]),
]


def sh(*a, **kw):
    return subprocess.run(*a, capture_output=True, text=True, **kw)


def main():
    sh(["git", "-C", "/repo", "worktree", "remove", "--force", WT])
    sh(["git", "-C", "/repo", "worktree", "add", "-q", "--detach", WT, "HEAD"], check=True)
    kept = []
    try:
        for sid, pid, what, edits in C:
            sh(["git", "-C", WT, "checkout", "-q", "--", "."])
            ok = True
            for path, old, new in edits:
                s = open(f"{WT}/{path}").read()
                if old not in s:
                    print(sid, "EDIT DOES NOT APPLY", path, repr(old[:50]))
                    ok = False
                    break
                open(f"{WT}/{path}", "w").write(s.replace(old, new, 1))
            if not ok:
                continue
            imp = sh(["/venv/bin/python", "-W", "ignore", "-c", "import ahbicht.content_evaluation, ahbicht.validation.validation"], cwd=WT, env=dict(os.environ, PYTHONPATH=WT + "/src"))
            if imp.returncode != 0:
                print(sid, "DOES NOT IMPORT", imp.stderr[-200:])
                continue
            t = sh(["/venv/bin/python", "-m", "pytest", "-q", "-p", "no:cacheprovider", "-x"], cwd=WT, env=dict(os.environ, PYTHONPATH=WT + "/src"))
            last = t.stdout.strip().splitlines()[-1] if t.stdout.strip() else "?"
            green = t.returncode == 0
            print(sid, "suite:", last, "-> kept" if green else "-> discarded (the existing tests catch it)")
            if not green:
                continue
            d = f"/verif/seeded/W2-{sid}"
            os.makedirs(d, exist_ok=True)
            open(d + "/patch.diff", "w").write(sh(["git", "-C", WT, "diff"]).stdout)
            json.dump({"id": f"W2-{sid}", "breaks_property": pid, "source": "hand-written second wave (DESIGN §9)", "needs_to_manifest": what,
                       "what_i_ran": {"tool": "tools/make_wave2.py", "test_suite_with_patch": last}, "detected_by": None},
                      open(d + "/meta.json", "w"), indent=1, ensure_ascii=False)
            kept.append(sid)
    finally:
        sh(["git", "-C", "/repo", "worktree", "remove", "--force", WT])
    print("kept:", kept)


if __name__ == "__main__":
    main()
