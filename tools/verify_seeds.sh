#!/bin/bash
# verifies every sub-agent seed in /tmp/wt/out/<Cxx>/seed?/ in a scratch worktree: patch applies on HEAD, touches only src/,
# suite green with patch, demo fails with patch, demo passes without.  Writes /tmp/wt/out/verify.log
set -u
V=/tmp/wt/V
git -C /repo worktree remove --force $V 2>/dev/null
git -C /repo worktree add -q $V HEAD || exit 1
LOG=/tmp/wt/out/verify.log; : > $LOG
for d in /tmp/wt/out/C*/seed${SEEDS:-*}/; do
  id=$(basename $(dirname $d)); sd=$(basename $d)
  p=$d/patch.diff
  demo=$d/demo.py; [ -f $demo ] || demo=$d/demo_test.py
  [ -f $p ] || { echo "$id $sd NO-PATCH" >> $LOG; continue; }
  cd $V && git checkout -q -- . && git clean -fdq
  files=$(grep '^+++ b/' $p | sed 's#+++ b/##' | tr '\n' ' ')
  if ! git apply --check $p 2>/dev/null; then echo "$id $sd PATCH-DOES-NOT-APPLY" >> $LOG; continue; fi
  # demo without patch
  sed "s#/tmp/wt/$id#$V#g" $demo > /tmp/wt/out/_demo.py
  if [[ $demo == *_test.py ]]; then runner="-m pytest -q -p no:cacheprovider"; else runner=""; fi
  PYTHONPATH=$V/src timeout 600 /venv/bin/python -W ignore $runner /tmp/wt/out/_demo.py > /tmp/wt/out/_d0.txt 2>&1; r0=$?
  git apply $p
  PYTHONPATH=$V/src timeout 600 /venv/bin/python -W ignore $runner /tmp/wt/out/_demo.py > /tmp/wt/out/_d1.txt 2>&1; r1=$?
  suite=$(PYTHONPATH=$V/src timeout 900 /venv/bin/python -m pytest -q -p no:cacheprovider 2>&1 | tail -1)
  echo "$id $sd files=[$files] demo_without=$r0 demo_with=$r1 suite=[$suite]" >> $LOG
done
cd /; git -C /repo worktree remove --force $V
echo DONE >> $LOG
