"""C16 — an invalid expression makes one node optional and never aborts validation (E1, fault enumeration over node subsets)."""
import itertools

from checks import _ahb as H
from mc.enum import ahbtrees as T
from mc.ref import validation as R7
from mc.runner import Result

ID = "C16"
TITLE = "An invalid expression makes one node optional and never aborts validation"
ENGINE = "e1-bounded-enumeration"

INVALID = ["Muss [1] O [501]", "X [501] X [901]", "Muss ([1] U [2]) O [501]", "Muss [2] O [501] Kann [3]", "Soll [3] Kann [2] X [502]",
           "Muss ([501] U [502]) O [2]", "Kann [501][902] X [1]", "Muss [2][901] O [501]", "Soll [3] U ([501] X [2][901])"]
BASE_LABELS = ["Muss [1]", "Kann [1]", "Muss [2]"]
BOUNDS = {"quick": {"nodes": 4, "cers": 2, "invalid": 9}, "thorough": {"nodes": 5, "cers": 3, "invalid": 9}}


def describe(tier):
    b = BOUNDS[tier]
    return {
        "rule": f"every AHB tree shape with <= {b['nodes']} nodes (value pools with 1, 2 and 3 entries count their entries as fault sites) x EVERY "
                f"non-empty subset of fault sites (groups, segments, free-text elements, value-pool entries) carrying one of the first "
                f"{b['invalid']} invalid expressions {INVALID} (single- and multi-part, invalid part first or last) x base labellings "
                f"rotating through {BASE_LABELS} x {b['cers']} content evaluation results. Oracle: no exception; every faulty segment-level / "
                "free-text node is reported IS_OPTIONAL (with or without FILLED/EMPTY suffix, I4) with a non-empty reason as hint; a faulty "
                "value-pool entry is offered; the result of every OTHER node is identical to the run on the AHB in which each invalid "
                "expression is replaced by 'Kann' (same exception class if that run raises). History family: an expression whose validity depends on a package ('Muss [1] O [5P]') at every site of 4 shapes, validated 2-4 times in one process under "
                "changing package tables (valid / invalid alternating): each run is judged by the table of that run. E3 family: "
                f"{len(ORD_SHAPES)} shapes x every fault site x 4 invalid expressions (multi-part with the invalid part first / last, single, nested) with SUSPENDING "
                "evaluators under all completion orders with <= 2 (thorough 4) deviations on the virtual event loop: every schedule's result equals the zero-yield run, "
                "which equals the run with non-suspending evaluators (judged by the oracle above). Non-trivial = >= 2 simultaneous faults / schedules deviating from oldest-first.",
        "bounds": b,
        "exhaustive": True,
        "assumptions": ["I4: 'reported optional' = IS_OPTIONAL with or without suffix"],
    }


# E3 family: the invalid expression raises inside one part / node while siblings are suspended
ORD_SHAPES = [(("G", (), (("S", ()), ("S", ()))),), (("G", (("G", (), ()),), (("S", ("F",)),)),), (("G", (), (("S", ("F", "F")),)),),
              (("G", (), ()), ("G", (), (("S", ("P",)),)))]
ORD_INVALID = [3, 4, 0, 8]  # multi-part (invalid part first / last), single part, nested


def _orders_model(item):
    shape = ORD_SHAPES[item["shape"]]
    faulty = _model(shape, item["rot"], 1)
    sites = _sites(faulty)
    kind, node, i = sites[item["site"] % len(sites)]
    if kind == "node":
        node["expr"] = INVALID[ORD_INVALID[item["inv"]]]
    else:
        node["entries"][i]["expr"] = INVALID[ORD_INVALID[item["inv"]]]
    return faulty


def plan(tier, seed):
    b = BOUNDS[tier]
    items = []
    for si, shape in enumerate(ORD_SHAPES):
        nsites = len(_sites(_model(shape, 0, 1)))
        for site in range(nsites):
            for inv in range(len(ORD_INVALID)):
                items.append({"fam": "orders", "shape": si, "site": site, "inv": inv, "rot": (site + inv) % 3, "cer": inv % 2,
                              "order_bound": 2 if tier == "quick" else 4})
    for si, shape in enumerate(ORD_SHAPES):
        for site in range(len(_sites(_model(shape, 0, 1)))):
            for tables in ([0, 1], [1, 0], [0, 1, 2], [1, 2, 3], [2, 3, 0, 1]):
                items.append({"fam": "tables", "shape": si, "site": site, "tables": tables, "rot": site % 3, "cer": 0})
    for si, s in enumerate(T.shapes(b["nodes"])):
        for cer in range(b["cers"]):
            for inv in range(b["invalid"]):
                items.append({"shape": si, "nodes": b["nodes"], "cer": cer, "inv": inv})
    return items


def worker_init():
    H.init()


def _sites(groups):
    """fault sites in document order: ('node', node) / ('entry', pool, index)"""
    out = []
    for n in R7.nodes(groups):
        if n["kind"] == "pool":
            for i in range(len(n["entries"])):
                out.append(("entry", n, i))
        else:
            out.append(("node", n, None))
    return out


def _model(shape, base_rot, variant):
    n = T.count_nodes(shape)
    exprs = [BASE_LABELS[(i + base_rot) % 3] if i else "Muss [1]" for i in range(n)]
    groups = H.model_from(shape, exprs, variant)
    for node in R7.nodes(groups):
        if node["kind"] == "pool":
            node["entries"] = [{"q": "A", "expr": "X [1]"}] if variant == 2 else \
                [{"q": "A", "expr": "X [1]"}, {"q": "B", "expr": "X [2]"}] + ([{"q": "C", "expr": "X"}] if variant % 2 else [])
    return groups


def check_case(shape, subset, inv, cer, base_rot=0, variant=0):
    H.init()
    out = []
    faulty = _model(shape, base_rot, variant)
    kann = _model(shape, base_rot, variant)
    fs, ks = _sites(faulty), _sites(kann)
    faulty_ids = set()
    faulty_entries = {}
    for idx in subset:
        kind, node, i = fs[idx]
        _, knode, _ = ks[idx]
        if kind == "node":
            node["expr"] = INVALID[inv]
            knode["expr"] = "Kann"
            faulty_ids.add(node["id"])
        else:
            node["entries"][i]["expr"] = INVALID[inv]
            knode["entries"][i]["expr"] = "Kann"
            faulty_entries.setdefault(node["id"], []).append(node["entries"][i]["q"])
    case = {"shape": shape, "subset": list(subset), "inv": inv, "cer": cer, "base_rot": base_rot, "variant": variant}
    a = H.V.run_validation(faulty, H.env(cer), True)
    b = H.V.run_validation(kann, H.env(cer), True)

    def v(kind, exp, obs, msg=""):
        out.append({"kind": kind, "case": case, "expected": exp, "observed": obs, "msg": msg or f"invalid expression {INVALID[inv]!r} at sites {list(subset)}"})

    if a[0] == "exc":
        if b[0] == "exc" and b[1] == a[1]:
            return out  # e.g. NotImplementedError because an unrelated MUSS node is undetermined: identical behaviour
        v("validation-aborted", "a result list" if b[0] == "ok" else b[1], a[1])
        return out
    if b[0] == "exc":
        # the 'Kann' AHB raises (an undetermined MUSS below the faulty node) but the faulty AHB does not: other nodes differ
        v("other-nodes-differ", b[1], "a result list")
        return out
    ra, rb = a[1], b[1]
    if [x["id"] for x in ra] != [x["id"] for x in rb]:
        v("other-nodes-differ", [x["id"] for x in rb], [x["id"] for x in ra], "different set/order of reported nodes")
        return out
    for x, y in zip(ra, rb):
        if x["id"] in faulty_ids:
            if not x["status"].startswith("IS_OPTIONAL"):
                v("faulty-node-not-optional", "IS_OPTIONAL*", x["status"], f"node {x['id']}")
            elif not (isinstance(x["hints"], str) and x["hints"]):
                v("faulty-node-without-reason", "non-empty hint", x["hints"], f"node {x['id']}")
            continue
        if x["id"] in faulty_entries:
            miss = [q for q in faulty_entries[x["id"]] if x.get("offered") is not None and q not in x["offered"]]
            if miss and y.get("offered"):
                v("faulty-entry-not-offered", y["offered"], x["offered"], f"pool {x['id']}")
                continue
        if x != y:
            v("other-nodes-differ", y, x, f"node {x['id']}")
            break
    return out


PK_EXPR = "Muss [1] O [5P]"   # valid or invalid depending on what the package table says about 5P
PK_TABLES = [{"5P": "[2]"}, {"5P": "[501]"}, {"5P": "[2] U [3]"}, {"5P": "[501] U [901]"}]  # valid, invalid, valid, invalid


def check_tables(item):
    """the same AHB validated several times in ONE process under CHANGING package tables: whether the node is faulty is decided by
    the table of the current run"""
    out = []
    shape = ORD_SHAPES[item["shape"]]
    for step, t in enumerate(item["tables"]):
        faulty = _model(shape, item["rot"], 1)
        kann = _model(shape, item["rot"], 1)
        fs, ks = _sites(faulty), _sites(kann)
        kind, node, i = fs[item["site"] % len(fs)]
        _, knode, _ = ks[item["site"] % len(ks)]
        invalid_now = t % 2 == 1
        if kind == "node":
            node["expr"] = PK_EXPR
            knode["expr"] = "Kann" if invalid_now else PK_EXPR
        else:
            node["entries"][i]["expr"] = PK_EXPR
            knode["entries"][i]["expr"] = "Kann" if invalid_now else PK_EXPR

        def env():
            e = H.env(item["cer"])
            e.packages = dict(e.packages, **PK_TABLES[t])
            return e

        a = H.V.run_validation(faulty, env(), True)
        b = H.V.run_validation(kann, env(), True)
        case = {"tables": item, "step": step}
        if a[0] != b[0] or (a[0] == "exc" and a[1] != b[1]):
            out.append({"kind": "validation-aborted" if a[0] == "exc" else "other-nodes-differ", "case": case,
                        "expected": b[1] if b[0] == "exc" else "a result list", "observed": a[1] if a[0] == "exc" else "a result list",
                        "msg": f"run {step + 1} of {item['tables']} with 5P = {PK_TABLES[t]['5P']}"})
            break
        if a[0] == "exc":
            continue
        for x, y in zip(a[1], b[1]):
            is_faulty_node = kind == "node" and x["id"] == node["id"]
            if is_faulty_node and invalid_now:
                if not x["status"].startswith("IS_OPTIONAL") or not x["hints"]:
                    out.append({"kind": "faulty-node-not-optional", "case": case, "expected": "IS_OPTIONAL* with a reason", "observed": x,
                                "msg": f"run {step + 1} of {item['tables']}: 5P = {PK_TABLES[t]['5P']} makes {PK_EXPR!r} invalid"})
                    break
                continue
            if x != y and not (kind == "entry" and invalid_now and x["id"] == node["id"]):
                out.append({"kind": "other-nodes-differ", "case": case, "expected": y, "observed": x,
                            "msg": f"run {step + 1} of {item['tables']}: 5P = {PK_TABLES[t]['5P']}"})
                break
        if out:
            break
    return out


def _orders_violations(item, base, out, plain):
    import json

    vs = []
    if out != base:
        vs.append(("depends-on-completion-order", json.loads(base), json.loads(out)))
    if base != plain:
        vs.append(("suspending-evaluators-change-the-result", json.loads(plain), json.loads(base)))
    return vs


def run_item(item):
    H.init()
    r = Result()
    if item.get("fam") == "tables":
        vs = check_tables(item)
        r.evaluations += len(item["tables"])
        r.states += len(item["tables"])
        r.transitions += 2 * len(item["tables"])
        r.traces += 1
        r.nontrivial += 1
        for v in vs:
            r.violation(v["kind"], v["case"], v["expected"], v["observed"], v["msg"])
        r.sample({"tables": item})
        return r
    if item.get("fam") == "orders":
        import json

        faulty = _orders_model(item)
        vloop, factory_for, observe, base, exp = H.explore_validation(faulty, item["cer"], True, item["order_bound"])
        plain = json.dumps(list(H.V.run_validation(faulty, H.env(item["cer"]), True)), ensure_ascii=False, default=repr)
        r.evaluations += exp.schedules
        r.states += exp.decision_points
        r.transitions += exp.decision_points
        r.traces += exp.schedules
        r.nontrivial += max(0, len(exp.completion_traces) - 1)
        r.stat("schedules", exp.schedules)
        for out in set(exp.outcomes) | {base}:
            case = {"orders": item, "choices": exp.first_schedule_of_outcome.get(out, []), "zero_yield": out not in exp.outcomes}
            for kind, e, o in _orders_violations(item, base, out, plain):
                r.violation(kind, case, e, o, f"invalid expression {INVALID[ORD_INVALID[item['inv']]]!r} at site {item['site']} of {ORD_SHAPES[item['shape']]}")
        r.sample({"orders": item, "schedules": exp.schedules})
        return r
    shape = [s for s in T.shapes(item["nodes"])][item["shape"]]
    has_pool = "P" in repr(shape)
    for variant in (0, 1, 2) if has_pool else (0, 1):  # variant 2: value pools with exactly ONE entry
        nsites = len(_sites(_model(shape, 0, variant)))
        k = 0
        for size in range(1, nsites + 1):
            for subset in itertools.combinations(range(nsites), size):
                k += 1
                vs = check_case(shape, subset, item["inv"], item["cer"], base_rot=k % 3, variant=variant)
                r.evaluations += 1
                r.states += 1
                r.transitions += 2
                r.traces += 1
                if size >= 2:
                    r.nontrivial += 1
                for v in vs:
                    r.violation(v["kind"], v["case"], v["expected"], v["observed"], v["msg"])
                r.sample({"shape": repr(shape), "faulty_sites": list(subset), "invalid": INVALID[item["inv"]]}, limit=2)
    return r


def _tup(x):
    return tuple(_tup(y) for y in x) if isinstance(x, list) else x


def replay(case):
    if "tables" in case:
        return check_tables(case["tables"])
    if "orders" in case:
        import json

        item = case["orders"]
        faulty = _orders_model(item)
        vloop, factory_for, observe, base, _ = H.explore_validation(faulty, item["cer"], True, "none")
        plain = json.dumps(list(H.V.run_validation(faulty, H.env(item["cer"]), True)), ensure_ascii=False, default=repr)
        out = base if case.get("zero_yield") else observe(vloop.run_schedule(factory_for(False), case["choices"]))
        return [{"kind": k, "case": case, "expected": e, "observed": o} for k, e, o in _orders_violations(item, base, out, plain)]
    return check_case(_tup(case["shape"]), tuple(case["subset"]), case["inv"], case["cer"], case.get("base_rot", 0), case.get("variant", 0))
