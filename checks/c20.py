"""C20 — shipped date-time format constraints judge the instant, not its notation (E1, R9)."""
import itertools

from mc.ref import berlin as B
from mc.runner import Result

ID = "C20"
TITLE = "Shipped date-time format constraints judge the instant, not its notation"
ENGINE = "e1-bounded-enumeration"

YEARS = list(range(1996, 2038))
BOUNDS = {
    "quick": {"switch_years": [1996, 2002, 2010, 2021, 2024, 2037], "hour_window": 2, "all_minutes": False, "offset_step": 15, "garbage_len": 3},
    "thorough": {"switch_years": YEARS, "hour_window": 2, "all_minutes": True, "offset_step": 1, "garbage_len": 4},
}
GARBAGE_ALPHABET = ["2", "0", "-", ":", "T", "+", "Z", " ", ".", "1", "9", "x"]
NON_DATETIMES = ["", " ", "x", "None", "null", "2022", "2022-01", "2022-01-01", "2022-01-01T", "2022-01-01T00", "2022-01-01T00:00",
                 "2022-01-01T00:00:00", "2022-01-01 00:00:00", "00:00:00+01:00", "T00:00:00+01:00", "2022-13-01T00:00:00+01:00",
                 "2022-00-10T00:00:00+01:00", "2022-02-30T00:00:00+01:00", "2021-02-29T00:00:00+01:00", "2022-01-32T00:00:00+00:00",
                 "2022-01-01T24:00:00+01:00", "2022-01-01T23:60:00+01:00", "2022-01-01T23:59:60+00:00", "2022-01-01T00:00:00+25:00",
                 "2022-01-01T00:00:00+24:00", "2022-01-01T00:00:00+0100x",
                 "2022-01-01T00:00:00Zulu", "2022-01-01T00:00:00ZZ", "2022-01-01T00:00:00UTC", "2022-01-01T00:00:00 Europe/Berlin",
                 "2022-01-01T00:00:00+01:00 ", " 2022-01-01T00:00:00+01:00", "01.01.2022 00:00:00", "1/1/2022", 
                 "１２３", "2022-01-01T00:00:00+٠١:00", "\x00", "2022-01-01T00:00:00+01:00\n", "Z", "+00:00", "T", "-", "20220101",
                 "2022-W01-1", "2022-001", "now", "0000-01-01T00:00:00+00:00", "10000-01-01T00:00:00+00:00", "-2022-01-01T00:00:00+00:00",
                 "2022-01-01T00:00:00−01:00", "2022-1-1T0:0:0+1:0", "22-01-01T00:00:00+01:00"]


def describe(tier):
    b = BOUNDS[tier]
    return {
        "rule": f"(the partitions rotate through {len(PROCESS_TZ)} process time zones set with TZ/tzset - the verdicts must not depend on where the process runs) "
                f"instants: EVERY second of both DST switch days and their neighbours of the years {b['switch_years'] if tier == 'quick' else '1996..2037'}; "
                f"the +-{b['hour_window']} s window around EVERY whole hour of EVERY day 1996-01-01..2037-12-31"
                + ("; EVERY whole minute of every day" if b["all_minutes"] else "") +
                "; the range edges. notations: for the critical instants (local 00:00:00 and 06:00:00 +-1 s on both switch days, the days "
                f"around them and two ordinary days of EVERY year) every UTC offset -23:59..+23:59 on a {b['offset_step']}-minute grid (plus "
                "second-resolution offsets) in 10 spellings (+HH:MM, +HHMM, +HH, +HH:MM:SS, Z, space separator, .000000, basic format). "
                f"no-exception clause: ALL strings over the 12-character alphabet {''.join(GARBAGE_ALPHABET)!r} up to length {b['garbage_len']}, "
                f"a list of {len(NON_DATETIMES)} non-datetime strings, and the product of boundary field values (year in {{0001, 0002, 1995, "
                "1996, 2037, 2038, 9998, 9999}} x month/day/time edges x offsets +-00:00, +-00:01, +-14:00, +-23:59, +-23:59:59). Oracle: "
                "932/933 fulfilled <=> German local time (EU rule in integer arithmetic, R9) is 00:00:00, 934/935 <=> 06:00:00; the verdict "
                "is the same for every notation of one instant; 931 <=> the written offset is zero; a message is present iff "
                "unfulfilled; anything that is not a datetime with offset is unfulfilled WITH message; no string raises. Through "
                "FcEvaluator.evaluate_93x and (critical instants, garbage) through format_constraint_evaluation('[93x]') - single calls and call SEQUENCES over several constraints in one context in which the text is set once - with the ContextVar "
                "set. Non-trivial = instants within 2 h of a DST switch or fulfilled instants or non-zero-minute offsets.",
        "bounds": {k: (v if k != "switch_years" else len(v)) for k, v in b.items()},
        "exhaustive": True,
        "assumptions": ["sub-second instants and instants outside 1996-2037 are not claimed for the verdict clause",
                        "Python's datetime.fromisoformat defines which spellings are datetimes with offset (I7)"],
    }


# the verdicts are about instants and German law, not about where the process runs: the partitions rotate through the
# process time zone (POSIX TZ strings, no zone database needed; None = whatever the environment has, UTC in this sandbox)
PROCESS_TZ = [None, "CET-1CEST,M3.5.0,M10.5.0/3", "EST5EDT,M3.2.0,M11.1.0", "IST-5:30", "NZST-12NZDT,M9.5.0,M4.1.0/3"]


def plan(tier, seed):
    b = BOUNDS[tier]
    items = []
    for y in b["switch_years"]:
        for m in (3, 10):
            items.append({"fam": "switch", "year": y, "month": m, "tz": PROCESS_TZ[(y + m) % len(PROCESS_TZ)]})
    for k, y in enumerate(YEARS):
        items.append({"fam": "hours", "year": y, "window": b["hour_window"], "tz": PROCESS_TZ[(k + 1) % len(PROCESS_TZ)]})
        if b["all_minutes"]:
            for half in (0, 1):
                items.append({"fam": "minutes", "year": y, "half": half, "tz": PROCESS_TZ[(k + half) % len(PROCESS_TZ)]})
        items.append({"fam": "notations", "year": y, "step": b["offset_step"], "tz": PROCESS_TZ[(k + 2) % len(PROCESS_TZ)]})
    items.append({"fam": "strings", "what": "list"})
    items.append({"fam": "strings", "what": "boundary"})
    for first in range(len(GARBAGE_ALPHABET)):
        items.append({"fam": "strings", "what": "garbage", "first": first, "len": b["garbage_len"]})
    return items


_I = None
_EV = None


def worker_init():
    global _I, _EV
    if _I is None:
        from mc import impl

        impl.setup()
        _I = impl
        _EV = impl.HarnessFcEvaluator()


def _call(key, text):
    """('ok', fulfilled, has_message) | ('exc', name)"""
    try:
        r = getattr(_EV, "evaluate_" + key)(text)
    except BaseException as e:  # pylint:disable=broad-except
        if isinstance(e, (KeyboardInterrupt, SystemExit)):
            raise
        return ("exc", type(e).__name__)
    try:
        return ("ok", r.format_constraint_fulfilled, r.error_message is not None and r.error_message != "")
    except AttributeError:
        return ("exc", "not-an-EvaluatedFormatConstraint:" + repr(r)[:60])


def _via_expression(key, text):
    I = _I

    async def go():
        I.text_to_be_evaluated_by_format_constraint.set(text)
        return await I.format_constraint_evaluation(f"[{key}]")

    r = I.try_call(lambda: I.run(go(), I.Env()))
    if r[0] == "exc":
        return ("exc", r[1])
    return ("ok", r[1].format_constraints_fulfilled, bool(r[1].error_message))


def check_instant(t, offset, style, keys=("932", "934"), via_expression=False):
    """violations for one written instant"""
    out = []
    text = B.fmt(t, offset, style)
    sod = B.german_second_of_day(t)
    exp = {"932": sod == 0, "933": sod == 0, "934": sod == 21600, "935": sod == 21600, "931": offset == 0}
    for k in keys:
        r = (_via_expression if via_expression else _call)(k, text)
        case = {"t": t, "offset": offset, "style": style, "key": k, "text": text, "via_expression": via_expression}
        if r[0] == "exc":
            out.append({"kind": "raised", "case": case, "expected": exp[k], "observed": r[1], "msg": text})
        elif r[1] is not exp[k]:
            out.append({"kind": "931-verdict" if k == "931" else "932-935-verdict", "case": case, "expected": exp[k], "observed": r[1],
                        "msg": f"evaluate_{k}({text!r}); German local second of day = {sod}"})
        elif r[2] != (not exp[k]):
            out.append({"kind": "message-iff-unfulfilled", "case": case, "expected": not exp[k], "observed": r[2], "msg": text})
    return out


def check_sequence(t, offset, style, order):
    """the text is set ONCE in a context, then the constraints are evaluated one after another in that context (expression entry
    point): every verdict is the one for this instant, whatever was evaluated before"""
    I = _I
    out = []
    text = B.fmt(t, offset, style)
    sod = B.german_second_of_day(t)
    exp = {"932": sod == 0, "933": sod == 0, "934": sod == 21600, "935": sod == 21600, "931": offset == 0}

    async def go():
        I.text_to_be_evaluated_by_format_constraint.set(text)
        res = []
        for k in order:
            r = await I.format_constraint_evaluation(f"[{k}]")
            res.append((r.format_constraints_fulfilled, bool(r.error_message)))
        return res

    r = I.try_call(lambda: I.run(go(), I.Env()))
    case = {"t": t, "offset": offset, "style": style, "order": list(order), "text": text, "sequence": True}
    if r[0] == "exc":
        return [{"kind": "raised", "case": case, "expected": [exp[k] for k in order], "observed": r[1], "msg": text}]
    for k, (ful, msg) in zip(order, r[1]):
        if ful is not exp[k]:
            out.append({"kind": "931-verdict" if k == "931" else "932-935-verdict", "case": dict(case, key=k), "expected": exp[k], "observed": ful,
                        "msg": f"[{k}] evaluated as number {list(order).index(k) + 1} of {list(order)} on {text!r} in one context"})
            break
    return out


def check_string(text, expect="unfulfilled", via_expression=False):
    """expect: 'unfulfilled' (not a datetime with offset) or 'any' (parsable but outside the claimed range)"""
    out = []
    for k in ("931", "932", "933", "934", "935"):
        r = (_via_expression if via_expression else _call)(k, text)
        case = {"text": text, "key": k, "expect": expect, "via_expression": via_expression}
        if r[0] == "exc":
            out.append({"kind": "raised", "case": case, "expected": "no exception", "observed": r[1], "msg": repr(text)})
        elif expect == "unfulfilled" and r[1] is not False:
            out.append({"kind": "non-datetime-fulfilled", "case": case, "expected": False, "observed": r[1], "msg": repr(text)})
        elif r[1] is False and not r[2]:
            out.append({"kind": "unfulfilled-without-message", "case": case, "expected": "a message", "observed": None, "msg": repr(text)})
    return out


def _acc(r, vs, nontrivial=True):
    r.evaluations += 1
    r.states += 1
    r.traces += 1
    if nontrivial:
        r.nontrivial += 1
    for v in vs:
        r.violation(v["kind"], v["case"], v["expected"], v["observed"], v["msg"])


def _critical_instants(y):
    """local 00:00:00 and 06:00:00 +-1 s on the switch days, their neighbours and two ordinary days"""
    days = []
    for m in (3, 10):
        d = B.days_from_civil(y, m, B.last_sunday(y, m))
        days += [d - 7, d - 1, d, d + 1]
    days += [B.days_from_civil(y, 1, 1), B.days_from_civil(y, 7, 15), B.days_from_civil(y, 12, 31)]
    out = []
    for d in days:
        for local in (0, 21600):
            for off in (3600, 7200):  # both candidate UTC instants: exactly one of them is the real local time
                for delta in (-1, 0, 1):
                    out.append(d * 86400 + local - off + delta)
    return sorted(set(out))


def run_item(item):
    import os
    import time

    tz = item.get("tz")
    before = os.environ.get("TZ")
    if tz:
        os.environ["TZ"] = tz
        time.tzset()
    try:
        r = _run_item(item)
        if tz:
            r.stat("partitions_with_process_tz_not_utc")
        return r
    finally:
        if tz:
            if before is None:
                os.environ.pop("TZ", None)
            else:
                os.environ["TZ"] = before
            time.tzset()


def _run_item(item):
    worker_init()
    r = Result()
    fam = item["fam"]
    if fam == "switch":
        y, m = item["year"], item["month"]
        d = B.days_from_civil(y, m, B.last_sunday(y, m))
        for t in range((d - 1) * 86400, (d + 2) * 86400):
            style = (t // 3600) % B.N_STYLES
            off = (0, 3600, 7200, -3600)[(t // 1800) % 4]
            keys = ("932", "934") if t % 7 else ("932", "933", "934", "935", "931")
            _acc(r, check_instant(t, off, style, keys), True)
            r.transitions += len(keys)
        r.sample({"family": "every second of", "days": [B.civil_from_days(d - 1), B.civil_from_days(d + 1)]})
    elif fam == "hours":
        y = item["year"]
        w = item["window"]
        for day in range(B.days_from_civil(y, 1, 1), B.days_from_civil(y + 1, 1, 1)):
            for h in range(24):
                base = day * 86400 + h * 3600
                for dt in range(-w, w + 1):
                    t = base + dt
                    if t < B.days_from_civil(1996, 1, 1) * 86400 or t >= B.days_from_civil(2038, 1, 1) * 86400:
                        continue
                    sod = B.german_second_of_day(t)
                    _acc(r, check_instant(t, (0, 3600, 7200)[h % 3], (day + h) % B.N_STYLES), sod in (0, 21600))
                    r.transitions += 2
        r.sample({"family": "window around every whole hour", "year": y})
    elif fam == "minutes":
        y = item["year"]
        d0, d1 = B.days_from_civil(y, 1, 1), B.days_from_civil(y + 1, 1, 1)
        mid = (d0 + d1) // 2
        lo, hi = (d0, mid) if item["half"] == 0 else (mid, d1)
        for t in range(lo * 86400, hi * 86400, 60):
            _acc(r, check_instant(t, 0, 6), B.german_second_of_day(t) in (0, 21600))
            r.transitions += 2
        r.sample({"family": "every whole minute", "year": y, "half": item["half"]})
    elif fam == "notations":
        y = item["year"]
        step = item["step"]
        offsets = [o * 60 for o in range(-23 * 60 - 59, 24 * 60, step)] + [-86399, 86399, 1, -1, 30, -30, 59, 3661, -7262, 5 * 3600 + 30 * 60]
        for t in _critical_instants(y):
            verdicts = set()
            for i, off in enumerate(offsets):
                style = i % B.N_STYLES
                if style in (6, 7) and off != 0:
                    style = 0
                vs = check_instant(t, off, style, ("932", "934", "931") if (i % 5 == 0 or off % 60) else ("932", "934"))
                _acc(r, vs, off % 3600 != 0)
                r.transitions += 2
            _acc(r, check_instant(t, 0, 6, ("931", "932", "933", "934", "935")))
            _acc(r, check_instant(t, 0, 7, ("931", "932", "933", "934", "935"), via_expression=True))
            _acc(r, check_instant(t, 3600, 0, ("931", "933", "935"), via_expression=True))
            # call sequences in one context (text set once)
            for order in (("931", "932", "933", "934", "935"), ("935", "934", "933", "932", "931"), ("934", "932", "934", "932")):
                _acc(r, check_sequence(t, 0, 0, order))
                _acc(r, check_sequence(t, 7200, 1, order))
        r.sample({"family": "all notations of critical instants", "year": y, "instants": len(_critical_instants(y)), "offsets": len(offsets)})
    elif fam == "strings":
        if item["what"] == "list":
            for s in NON_DATETIMES:
                _acc(r, check_string(s))
                _acc(r, check_string(s, via_expression=True))
                r.transitions += 10
            for s in (None,):
                _acc(r, check_string(s))
            # "-00:00" is a zero offset
            for t in (B.days_from_civil(2022, 6, 1) * 86400 + 43200, B.days_from_civil(2022, 1, 1) * 86400):
                text = B.fmt(t, 0, 0).replace("+00:00", "-00:00")
                res = _call("931", text)
                _acc(r, [] if res[:2] == ("ok", True) else [{"kind": "931-verdict", "case": {"text": text, "key": "931", "minus_zero": True},
                                                             "expected": True, "observed": res[1], "msg": text}])
        elif item["what"] == "boundary":
            years = ["0001", "0002", "1995", "1996", "2037", "2038", "9998", "9999"]
            mds = ["01-01", "12-31", "02-28", "03-31", "10-31"]
            times = ["00:00:00", "23:59:59", "06:00:00", "01:00:00"]
            offs = ["+00:00", "-00:01", "+00:01", "+14:00", "-14:00", "+23:59", "-23:59", "+23:59:59", "-23:59:59", "Z", "+01:00", "+02:00"]
            for y, md, tm, of in itertools.product(years, mds, times, offs):
                _acc(r, check_string(f"{y}-{md}T{tm}{of}", expect="any"))
                r.transitions += 5
        else:
            first = GARBAGE_ALPHABET[item["first"]]
            for L in range(1, item["len"] + 1):
                for rest in itertools.product(GARBAGE_ALPHABET, repeat=L - 1):
                    s = first + "".join(rest)
                    _acc(r, check_string(s), L >= 2)
                    r.transitions += 5
        r.sample({"family": "strings/" + item["what"]})
    return r


def replay(case):
    if case.get("sequence"):
        worker_init()
        return check_sequence(case["t"], case["offset"], case["style"], tuple(case["order"]))
    worker_init()
    if case.get("minus_zero"):
        res = _call("931", case["text"])
        return [] if res[:2] == ("ok", True) else [{"kind": "931-verdict", "case": case, "expected": True, "observed": res[1]}]
    if "t" in case:
        return check_instant(case["t"], case["offset"], case["style"], (case["key"],), case.get("via_expression", False))
    return [v for v in check_string(case["text"], case.get("expect", "unfulfilled"), case.get("via_expression", False))
            if v["case"]["key"] == case["key"]]
