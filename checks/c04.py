"""C04 — requirement-constraint evaluation equals the documented compositional semantics (E1, R3)."""
from checks import _exprs as X
from mc.enum import asts as A
from mc.ref import reqeval as R3
from mc.runner import Result

ID = "C04"
TITLE = "Requirement-constraint evaluation equals the documented compositional semantics"
ENGINE = "e1-bounded-enumeration"
NPART = 64

BOUNDS = {
    "quick": [[1, "all"], [2, "all"], [3, "all"], [4, "all"]],
    "thorough": [[1, "all"], [2, "all"], [3, "all"], [4, "all"], [5, "distinct"]],
}


def describe(tier):
    return {
        "rule": "every expression AST over leaf classes {RC, hint, FC} and operators {U, O, X, juxtaposition} that lies in domain D (a "
                "juxtaposition attaches one FC leaf to a single hint or to an operand containing an RC) and is structurally valid (R4), with "
                f"(leaves, key labelling) in {BOUNDS[tier]} ('all' = every restricted-growth labelling incl. repeated keys), rendered with "
                "minimal brackets, x ALL 3^k assignments of {FULFILLED, UNFULFILLED, UNKNOWN} to its k requirement keys. Oracle: reference "
                "evaluator R3 (tables R1, hints/FCs NEUTRAL, juxtaposition copies the partner's state) applied to the implementation's own parse "
                "tree == evaluate_requirement_constraint_tree(...).conditions_fulfilled, and requirement_constraint_evaluation(expr) and requirement_constraint_evaluation(<the parsed Tree object, reused for every assignment>) "
                "(through injected evaluators) == mapping F->(True,conditional) N->(True,unconditional) U->(False,conditional) "
                "UNKNOWN->(None,None). Expressions with <= 3 leaves are additionally evaluated with the answers delivered through the library's own "
                "DictBased* evaluators (evaluator_factory), its ContentEvaluationResultBased* evaluators (fresh and one shared EvaluatableData object), JsonFileHintsProvider / JsonFilePackageResolver and user-style method-based "
                "evaluators with per-instance state (a new instance per assignment), and four 3-key expressions (one with a repeated key) under all 6 permutations of "
                "F/U/UNKNOWN and ALL completion orders of suspending evaluate_<key> coroutines (virtual event loop). Expressions with 2-3 leaves are "
                "repeated with the first three requirement keys in each of the 5 other orders (first occurrence vs. string vs. numeric order). "
                f"Flat chains with {LONG[tier]} requirement-key occurrences x operator patterns {LONG_OPS}: 2 or 3 keys cycling under all 3^k assignments, all keys "
                "distinct under uniform assignments with <= 1 deviation (deviation-bounded). "
                f"{len(SPELLING_EXPRS)} expressions with keys written with leading zeros (several spellings of one number = several keys) under all assignments. "
                "Two format versions behind ONE token logic provider whose user-style evaluators answer differently: sequences of four evaluations alternating between the versions, "
                f"for {len(HIST_SECOND)} expressions x every ordered pair of different assignments. "
                f"Histories of depth 2: each of {len(HIST_FIRST)} first expressions (valid and invalid) under every assignment through the transformer, "
                f"the async entry point or the validity check, followed by each of {len(HIST_SECOND)} valid expressions sharing sub-expressions under every "
                "assignment - the second result must equal the reference. A (expression, assignment) pair is non-trivial if the expression has >= 1 operator and the assignment "
                "contains UNKNOWN or the expression contains a hint/FC.",
        "bounds": {"sizes": BOUNDS[tier]},
        "exhaustive": True,
        "assumptions": ["the parse tree is taken from the implementation (its grouping is C01's concern)"],
    }


MODES = ("hardcoded", "cer", "methods", "cer-shared", "jsonfile")
# histories (E2, depth 2): a FIRST operation on one expression (valid or invalid; through the transformer, the async entry point or
# the validity check), then the evaluation of a valid expression that shares sub-expressions with it
HIST_FIRST = ["([1] U [2005]) O [501]", "([1] O [2005]) X [901]", "([1] U [2005]) X [501] U [499]", "[501] U ([1] U [2005]) O [502]",
              "[1] U [2005]", "([1] U [2005]) O [499]", "([1] O [2005]) U [499]", "[1] U [2005] U [501]"]
HIST_SECOND = ["[1] U [2005]", "([1] U [2005]) O [499]", "([1] O [2005]) X [499]", "[1] U [2005] U [501]", "([1] O [2005]) U [499][901]"]
LONG = {"quick": [6, 10, 11, 12, 21], "thorough": [6, 7, 8, 9, 10, 11, 12, 13, 16, 20, 21, 22, 31, 33]}
LONG_OPS = ["U", "O", "X", "UO", "OU", "XU", "UOX"]
HIST_OPS = ("tree", "async", "valid")
# two-step histories over DIFFERENT key lists that a hidden memo could confuse: equal when concatenated ('1','23' / '12','3' -
# also across the key categories), equal as sets but in other positions / with other multiplicities, one a prefix of the other
CONFUSABLE = [("[1] U [23]", "[12] U [3]"), ("[12] U [3]", "[1] U [23]"), ("[1] U [501]", "[150] O [1]"), ("[150] O [1]", "[1] U [501]"),
              ("[1] U [11]", "[11] U [1]"), ("[11] O [1]", "[1] O [11] U [111]"), ("[1] O [2] U [3]", "[3] O [2] U [1]"),
              ("[1] U [1] O [2]", "[1] U [2] O [2]"), ("[2] O [20][901]", "[220] O [901] U [2]"), ("[49] U [9]", "[4] U [99]"),
              ("[1] U [2]", "[1] U [2] O [3]"), ("[1] U [2] O [3]", "[1] U [2]"), ("[20] U [05]", "[2005] U [5]")]
SPELLING_EXPRS = ["[01] U [1]", "[007] O [7] U [0501]", "([01] X [1]) O [001]", "[02005] U [2005][0901]", "[0499] O [499] U [00501] U [501]"]
ORDER_EXPRS = ["[1] U ([2005] O [499])", "([499] X [1]) O [2005] U [501]", "[2005][901] U [1] O [499]", "([1] U [2005]) O ([1] U [499])"]


def plan(tier, seed):
    items = []
    # the same executions through the evaluators the library ships (dict based, content-evaluation-result based) and through
    # user-style method based evaluators with per-instance state
    for mode in MODES:
        for n in (1, 2, 3) if tier == "quick" else (1, 2, 3, 4):
            parts = {1: 1, 2: 1, 3: 6, 4: 64}[n]
            for p in range(parts):
                items.append({"fam": "modes", "mode": mode, "n": n, "lab": "all" if n <= 3 else "distinct", "part": p, "parts": parts,
                              "seed": seed})
    # key labels in every relative (string / numeric) order: the first three requirement keys of the pool in all 5 other permutations
    for perm in range(1, 6):
        for n in (2, 3):
            items.append({"fam": "keyorder", "perm": perm, "n": n, "seed": seed})
    for L in LONG[tier]:
        for ops in range(len(LONG_OPS)):
            items.append({"fam": "long", "L": L, "ops": ops, "seed": seed})
    # one provider, two format versions whose evaluators answer differently, evaluations alternate between the versions
    for e in range(len(HIST_SECOND)):
        items.append({"fam": "versions", "expr": e, "seed": seed})
    # keys written with leading zeros (well-formed; a key is its token text): different spellings of one number are different keys
    for e in range(len(SPELLING_EXPRS)):
        items.append({"fam": "spellings", "expr": e, "seed": seed})
    for f in range(len(HIST_FIRST)):
        for op in HIST_OPS:
            items.append({"fam": "history", "first": f, "op": op, "seed": seed})
    for c in range(len(CONFUSABLE)):
        for op in HIST_OPS:
            items.append({"fam": "confusable", "pair": c, "op": op, "seed": seed})
    # requirement evaluators whose evaluate_<key> coroutines really suspend: ALL completion orders (virtual event loop, E3)
    for e in range(len(ORDER_EXPRS)):
        for perm in range(6):
            items.append({"fam": "orders", "expr": e, "perm": perm, "early": 0 if tier == "quick" else 1})
    for n, lab in BOUNDS[tier]:
        parts = 1 if n <= 2 else (8 if n == 3 else NPART * (4 if n >= 5 else 1))
        for p in range(parts):
            items.append({"n": n, "lab": lab, "part": p, "parts": parts, "seed": seed})
    return items


def worker_init():
    X.init()


def check_expr(expr, only_assign=None):
    """returns (violations, n_pairs, n_nontrivial, outcomes)"""
    I = X.init()
    out = []
    pr = X.parse(expr)
    if pr[0] == "exc":
        return [{"kind": "parse-failed", "case": {"expr": expr}, "expected": "a tree", "observed": pr[1], "msg": expr}], 0, 0, set()
    _, T, tt = pr
    if not R3.in_domain(tt) or not R3.valid(tt):
        raise RuntimeError(f"harness error: {expr!r} left the domain after parsing")
    rckeys = R3.keys_of(tt, "rc")
    has_neutral = bool(R3.keys_of(tt, "hint") or R3.keys_of(tt, "fc"))
    has_op = tt[0] != "condition"
    pairs = nontrivial = 0
    outcomes = set()
    assigns = [only_assign] if only_assign is not None else X.assignments(rckeys)
    for a in assigns:
        pairs += 1
        if has_op and ("?" in a.values() or has_neutral):
            nontrivial += 1
        exp_state = R3.state(tt, a)
        case = {"expr": expr, "assign": a}
        r = X.eval_tree(T, tt, a)
        if r[0] == "exc":
            out.append({"kind": "tree-eval-raised", "case": case, "expected": exp_state, "observed": r[1], "msg": expr})
        elif r[1] != exp_state:
            out.append({"kind": "state", "case": case, "expected": exp_state, "observed": r[1],
                        "msg": f"{expr} under {a}: evaluate_requirement_constraint_tree"})
        r2 = X.eval_async(expr, tt, a)
        exp_out = R3.outcome(exp_state)
        if r2[0] == "exc":
            out.append({"kind": "evaluation-raised", "case": case, "expected": list(exp_out), "observed": r2[1], "msg": expr})
        elif (r2[1], r2[2]) != exp_out:
            out.append({"kind": "outcome-mapping", "case": case, "expected": list(exp_out), "observed": [r2[1], r2[2]],
                        "msg": f"{expr} under {a}: requirement_constraint_evaluation (fulfilled, is_conditional)"})
        # the async entry point also accepts the parsed TREE (the same Tree object for every assignment)
        r3 = X.eval_async(T, tt, a)
        if r3[0] == "exc":
            out.append({"kind": "evaluation-raised/tree-input", "case": case, "expected": list(exp_out), "observed": r3[1], "msg": expr})
        elif (r3[1], r3[2]) != exp_out:
            out.append({"kind": "outcome-mapping/tree-input", "case": case, "expected": list(exp_out), "observed": [r3[1], r3[2]],
                        "msg": f"{expr} under {a}: requirement_constraint_evaluation(<Tree>)"})
        outcomes.add(exp_state)
    return out, pairs, nontrivial, outcomes


def check_expr_mode(expr, mode, only_assign=None):
    """requirement_constraint_evaluation(expr) with the answers delivered through `mode` == reference mapping"""
    from mc import impl_modes as M

    I = X.init()
    out = []
    pr = X.parse(expr)
    if pr[0] == "exc":
        return [{"kind": "parse-failed", "case": {"expr": expr, "mode": mode}, "expected": "a tree", "observed": pr[1], "msg": expr}], 0
    _, T, tt = pr
    rckeys, fckeys, hkeys = R3.keys_of(tt, "rc"), R3.keys_of(tt, "fc"), R3.keys_of(tt, "hint")
    n = 0
    for a in ([only_assign] if only_assign is not None else X.assignments(rckeys)):
        n += 1
        exp = R3.outcome(R3.state(tt, a))
        case = {"expr": expr, "assign": a, "mode": mode}
        r = I.try_call(lambda: M.run(mode, lambda: I.requirement_constraint_evaluation(expr), rc=a,
                                     fc={k: (True, None) for k in fckeys},
                                     hints={k: (f"Hinweis {k}" if (i + len(rckeys)) % 2 == 0 else "") for i, k in enumerate(hkeys)}))  # '' is a legal text
        if r[0] == "exc":
            out.append({"kind": "evaluation-raised/" + mode, "case": case, "expected": list(exp), "observed": r[1], "msg": expr})
        elif (r[1].requirement_constraints_fulfilled, r[1].requirement_is_conditional) != exp:
            out.append({"kind": "outcome-mapping/" + mode, "case": case, "expected": list(exp),
                        "observed": [r[1].requirement_constraints_fulfilled, r[1].requirement_is_conditional],
                        "msg": f"{expr} under {a} through the {mode} evaluators"})
    return out, n


def long_cases(L, ops, seed):
    """flat chains with L requirement-key occurrences: (expression, list of assignments or None = all 3^k)"""
    sp = X.spelling(seed)
    opname = {"U": "and", "O": "or", "X": "xor"}
    pat = LONG_OPS[ops]
    pool = [str(k) for k in list(range(1, 40)) + [2001, 2499]]

    def chain(keys):
        s = f"[{keys[0]}]"
        for i, k in enumerate(keys[1:]):
            s += f" {sp[opname[pat[i % len(pat)]]]} [{k}]"
        return s

    for nk in (2, 3):
        yield chain([pool[(7 * i) % nk] for i in range(L)]), None
    keys = [pool[(5 * i) % len(pool)] for i in range(L)]  # not in ascending order
    assigns = []
    for base in "FU?":
        assigns.append({k: base for k in keys})
        for d in keys:
            for other in "FU?":
                if other != base:
                    assigns.append({k: (base if k != d else other) for k in keys})
    yield chain(keys), assigns


def _first_op(expr, op, assign):
    """the first operation of a history; its own result is not judged here (C04 main family / C06 do that)"""
    I = X.init()
    if op == "valid":
        def setter(cer):
            I.ENV.set(I.Env(rc={k: I.STATE_NAME[v] for k, v in cer.requirement_constraints.items()},
                            fc={k: (v.format_constraint_fulfilled, v.error_message) for k, v in cer.format_constraints.items()},
                            hints=dict(cer.hints), yielder=X._no_yield))
        I.try_call(lambda: I.run(I.is_valid_expression("Muss " + expr, setter), I.Env()))
        return
    pr = X.parse(expr)
    if op == "tree":
        X.eval_tree(pr[1], pr[2], assign)
    else:
        X.eval_async(expr, pr[2], assign)


def check_history(first, op, a1, second, a2):
    _first_op(first, op, a1)
    vs = check_expr(second, a2)[0]
    for v in vs:
        v["kind"] = f"after-history-{op}/" + v["kind"]
        v["case"] = {"history": [first, op, a1], "expr": second, "assign": a2}
    return vs


def check_versions(expr, a0, a1):
    """evaluations of `expr` alternating between two format versions (answers a0 / a1) behind one token logic provider"""
    from mc import impl_modes as M

    I = X.init()
    tt = X.parse(expr)[2]
    hk = R3.keys_of(tt, "hint")
    seq = (0, 1, 0, 1)
    res = M.run_versions(lambda: I.requirement_constraint_evaluation(expr), [a0, a1], seq, hints={k: f"Hinweis {k}" for k in hk})
    out = []
    for i, (v, r) in enumerate(zip(seq, res)):
        exp = R3.outcome(R3.state(tt, (a0, a1)[v]))
        case = {"expr": expr, "versions": [a0, a1], "step": i}
        if r[0] == "exc":
            out.append({"kind": "evaluation-raised/two-versions", "case": case, "expected": list(exp), "observed": r[1], "msg": expr})
            break
        if (r[1].requirement_constraints_fulfilled, r[1].requirement_is_conditional) != exp:
            out.append({"kind": "outcome-mapping/two-versions", "case": case, "expected": list(exp),
                        "observed": [r[1].requirement_constraints_fulfilled, r[1].requirement_is_conditional],
                        "msg": f"{expr}: evaluation {i + 1} of the sequence {list(seq)} carries format version {v} whose evaluator answers {(a0, a1)[v]}"})
            break
    return out


def _orders_setup(item):
    import itertools
    import json

    from mc import vloop

    I = X.init()
    expr = ORDER_EXPRS[item["expr"]]
    tt = X.parse(expr)[2]
    keys = R3.keys_of(tt, "rc")
    assign = dict(zip(sorted(keys), list(itertools.permutations(("F", "U", "?")))[item["perm"]]))
    want = json.dumps(list(R3.outcome(R3.state(tt, assign))))

    def factory(sched):
        I.reset_evaluators()

        async def y(kind, key):
            await sched.point(f"{kind}:{key}")

        env = I.Env(rc=assign, fc={"901": (True, None)}, hints={"501": "Hinweis"}, yielder=y)

        async def main():
            I.ENV.set(env)
            r = await I.requirement_constraint_evaluation(expr)
            return [r.requirement_constraints_fulfilled, r.requirement_is_conditional]

        return main()

    def observe(ex):
        return json.dumps(["exception", type(ex.exception).__name__] if ex.exception is not None else ex.result)

    return vloop, factory, observe, want, expr, assign


def run_item(item):
    X.init()
    r = Result()
    pools = X.pools(item.get("seed", 0))
    if item.get("fam") == "orders":
        vloop, factory, observe, want, expr, assign = _orders_setup(item)
        exp = vloop.explore(factory, observe, order_bound=None, early_bound=item["early"])
        r.evaluations += exp.schedules
        r.states += exp.decision_points
        r.transitions += exp.decision_points
        r.traces += exp.schedules
        r.nontrivial += max(0, len(exp.completion_traces) - 1)
        r.stat("schedules", exp.schedules)
        for out in exp.outcomes:
            if out != want:
                r.violation("outcome-mapping/completion-order", {"orders": item, "choices": exp.first_schedule_of_outcome[out]}, want, out,
                            f"{expr} under {assign}: some completion orders of the evaluate_<key> coroutines give another outcome")
        r.sample({"expr": expr, "assign": assign, "schedules": exp.schedules})
        return r
    if item.get("fam") == "keyorder":
        import itertools

        perm = list(itertools.permutations(range(3)))[item["perm"]]
        pools = dict(pools, rc=[pools["rc"][i] for i in perm] + pools["rc"][3:])
        for ast in A.asts(item["n"], "all", pools=pools):
            if not A.is_valid(ast):
                continue
            expr = X.render(ast, item["seed"])
            vs, pairs, nontrivial, outcomes = check_expr(expr)
            r.evaluations += pairs
            r.states += pairs
            r.transitions += 2 * pairs + 1
            r.traces += 1
            r.nontrivial += nontrivial
            r.stat("keyorder_expressions")
            for v in vs:
                r.violation(v["kind"], v["case"], v["expected"], v["observed"], v["msg"])
        return r
    if item.get("fam") == "long":
        for expr, assigns in long_cases(item["L"], item["ops"], item["seed"]):
            for a in (assigns if assigns is not None else [None]):
                vs, pairs, nontrivial, outcomes = check_expr(expr, a)
                r.evaluations += pairs
                r.states += pairs
                r.transitions += 2 * pairs + 1
                r.nontrivial += nontrivial
                r.stat("long_chain_pairs", pairs)
                for v in vs:
                    r.violation(v["kind"], v["case"], v["expected"], v["observed"], v["msg"])
            r.traces += 1
        r.sample({"expr": expr[:60] + "...", "L": item["L"]})
        return r
    if item.get("fam") == "spellings":
        expr = SPELLING_EXPRS[item["expr"]]
        vs, pairs, nontrivial, outcomes = check_expr(expr)
        r.evaluations += pairs
        r.states += pairs
        r.transitions += 2 * pairs + 1
        r.traces += 1
        r.nontrivial += nontrivial
        for v in vs:
            r.violation(v["kind"], v["case"], v["expected"], v["observed"], v["msg"])
        r.sample({"expr": expr, "spellings": True})
        return r
    if item.get("fam") == "versions":
        from mc import impl_modes as M

        expr = HIST_SECOND[item["expr"]]
        keys = R3.keys_of(X.parse(expr)[2], "rc")
        try:
            for a0 in X.assignments(keys):
                for a1 in X.assignments(keys):
                    if a0 == a1:
                        continue
                    vs = check_versions(expr, a0, a1)
                    r.evaluations += 4
                    r.states += 4
                    r.transitions += 4
                    r.nontrivial += 4
                    r.stat("two_version_sequences")
                    for v in vs:
                        r.violation(v["kind"], v["case"], v["expected"], v["observed"], v["msg"])
            r.traces += 1
        finally:
            M.restore()
        r.sample({"expr": expr, "versions": 2})
        return r
    if item.get("fam") == "confusable":
        first, second = CONFUSABLE[item["pair"]]
        k1 = R3.keys_of(X.parse(first)[2], "rc")
        for a1 in ([{}] if item["op"] == "valid" else X.assignments(k1)):
            for a2 in X.assignments(R3.keys_of(X.parse(second)[2], "rc")):
                vs = check_history(first, item["op"], a1, second, a2)
                r.evaluations += 1
                r.states += 1
                r.transitions += 2
                r.nontrivial += 1
                r.stat("confusable_key_list_histories")
                for v in vs:
                    r.violation(v["kind"], v["case"], v["expected"], v["observed"], v["msg"])
        r.traces += 1
        r.sample({"first": first, "op": item["op"], "second": second})
        return r
    if item.get("fam") == "history":
        first = HIST_FIRST[item["first"]]
        k1 = R3.keys_of(X.parse(first)[2], "rc")
        for a1 in ([{}] if item["op"] == "valid" else X.assignments(k1)):
            for second in HIST_SECOND:
                for a2 in X.assignments(R3.keys_of(X.parse(second)[2], "rc")):
                    vs = check_history(first, item["op"], a1, second, a2)
                    r.evaluations += 1
                    r.states += 1
                    r.transitions += 2
                    r.nontrivial += 1 if a1 != {k: a2.get(k) for k in a1} else 0
                    r.stat("histories")
                    for v in vs:
                        r.violation(v["kind"], v["case"], v["expected"], v["observed"], v["msg"])
            r.traces += 1
        r.sample({"first": first, "op": item["op"]})
        return r
    if item.get("fam") == "modes":
        from mc import impl_modes as M

        try:
            i = -1
            for ast in A.asts(item["n"], item["lab"], pools=pools):
                if not A.is_valid(ast):
                    continue
                i += 1
                if i % item["parts"] != item["part"]:
                    continue
                expr = X.render(ast, item["seed"])
                vs, n = check_expr_mode(expr, item["mode"])
                r.evaluations += n
                r.states += n
                r.transitions += n
                r.traces += 1
                r.nontrivial += n if item["n"] >= 2 else 0
                r.stat("mode_" + item["mode"], n)
                for v in vs:
                    r.violation(v["kind"], v["case"], v["expected"], v["observed"], v["msg"])
                r.sample({"expr": expr, "mode": item["mode"], "assignments": n})
        finally:
            M.restore()
        return r
    i = -1
    for ast in A.asts(item["n"], item["lab"], pools=pools):
        if not A.is_valid(ast):
            r.stat("skipped_invalid")
            continue
        i += 1
        if i % item["parts"] != item["part"]:
            continue
        expr = X.render(ast, item["seed"])
        vs, pairs, nontrivial, outcomes = check_expr(expr)
        r.evaluations += pairs
        r.states += pairs
        r.transitions += 2 * pairs + 1
        r.traces += 1
        r.nontrivial += nontrivial
        r.stat("expressions")
        r.outcomes.update(outcomes)
        for v in vs:
            r.violation(v["kind"], v["case"], v["expected"], v["observed"], v["msg"])
        r.sample({"expr": expr, "assignments": pairs})
    return r


def replay(case):
    if "orders" in case:
        vloop, factory, observe, want, expr, assign = _orders_setup(case["orders"])
        out = observe(vloop.run_schedule(factory, case["choices"]))
        return [] if out == want else [{"kind": "outcome-mapping/completion-order", "case": case, "expected": want, "observed": out}]
    if "versions" in case:
        from mc import impl_modes as M

        try:
            return check_versions(case["expr"], case["versions"][0], case["versions"][1])
        finally:
            M.restore()
    if "history" in case:
        return check_history(*case["history"], case["expr"], case["assign"])
    if case.get("mode"):
        from mc import impl_modes as M

        try:
            return check_expr_mode(case["expr"], case["mode"], case.get("assign"))[0]
        finally:
            M.restore()
    return check_expr(case["expr"], case.get("assign"))[0]
