"""C12 — results do not depend on the completion order of asynchronous evaluators (E3: virtual event loop)."""
import asyncio
import contextvars
import itertools
import json
import uuid

from mc import vloop
from mc.runner import Result

ID = "C12"
TITLE = "Results do not depend on the completion order of asynchronous evaluators"
ENGINE = "e3-vloop-schedules"

BOUNDS = {"quick": {"early": 0, "large_order_bound": 2, "kinds_matrix": "3 keys"},
          "thorough": {"early": 1, "large_order_bound": 4, "kinds_matrix": "3 keys"}}
PERMS = list(itertools.permutations(("F", "U", "?")))


def describe(tier):
    b = BOUNDS[tier]
    return {
        "rule": "harnesses H1 requirement_constraint_evaluation (3 RC keys x 2 hints, all 6 permutations of F/U/UNKNOWN), H2 "
                "format_constraint_evaluation (4 FCs with distinct answers and messages; also with 1-3 of the keys answered by PLAIN evaluate methods next to coroutine "
                "methods; the zero-yield value is compared with the documented Boolean value), H3 evaluate_ahb_expression_tree (2-3 modal mark parts "
                "incl. a bare indicator; mixed plain/awaitable list), H4 expand_packages (4 occurrences, two of the same key; and a missing "
                "package), H5 2-3 concurrent evaluations as tasks each with its own context-local data (the same expression, and DIFFERENT expressions: one part / several parts / bare indicator / hint only) (also through the library's "
                "ContentEvaluationResult-based evaluators), H8 the same with packages in each evaluation's own content evaluation result (same package keys, other expressions), H10 one token logic provider "
                "serving two format versions with different evaluators / hints / packages and concurrent evaluations carrying different versions, H10 also with a general and a specific EDIFACT format registered in either order, H12 ONE long-lived user-style evaluator instance serving all explored "
                "executions (each on a new event loop) with a key that occurs several times, H13 user-style coroutine methods computing their answer from the evaluatable "
                "data of 2-3 concurrent evaluations, H11 user-style evaluators with real evaluate_<key> methods of which some are plain and some suspending coroutine functions (RC and FC; zero-yield value "
                "compared with the reference), H3 also with parts that raise "
                "InvalidExpressionError (same exception class in every order), H6 is_valid_expression with a ContextVar setter (valid and invalid expression; no content evaluation result may be handed to two of the concurrent evaluations), H9 = H1/H3 with a synchronous hints provider, H7 "
                "every assignment of the evaluator kinds {sync, async-immediate, async-yield-once, async-yield-twice} to 3 keys. For every "
                "harness ALL completion orders of the pending awaitables at quiescent points are enumerated depth-first on a virtual event "
                f"loop (H3-large / H6-large: <= {b['large_order_bound']} deviations from oldest-first), plus <= {b['early']} early/batched "
                "completion per schedule for harnesses with <= 400 plain orders. Oracle: the observed result of every schedule equals the zero-yield baseline of the same harness "
                "(exactly one distinct outcome); a missing package raises NotImplementedError in every order; concurrent evaluations (H5, H8, H10) equal "
                "their solo results (each evaluation run alone with fresh evaluators). Non-trivial = schedules that deviate from oldest-first completion.",
        "bounds": b,
        "exhaustive": True,
        "assumptions": ["the only scheduling nondeterminism asyncio exposes to this library is the completion order / iteration of the "
                        "user-supplied awaitables (no timers, locks, queues, I/O in ahbicht)",
                        "evaluators that yield more than twice and more than ~8 simultaneously pending awaitables are not claimed"],
    }


_I = None


def worker_init():
    global _I
    if _I is None:
        from mc import impl

        impl.setup()
        _I = impl


def _yielder(sched, yields, tag=""):
    async def y(kind, key):
        for i in range(yields.get((kind, key), yields.get("*", 1))):
            await sched.point(f"{tag}{kind}:{key}#{i}")

    return y


def _env(sched, rc=None, fc=None, hints=None, packages=None, yields=None, sync=(), tag=""):
    if not tag or tag.startswith("e0/"):
        _I.reset_evaluators()  # once per explored execution: every schedule starts from fresh evaluator instances
    yields = {"*": 1} if yields is None else yields
    return _I.Env(rc=rc, fc=fc, hints=hints, packages=packages, yielder=_yielder(sched, yields, tag), sync=sync, tag=tag)


def _with_env(env, coro_fn):
    """coroutine that sets the ContextVar in ITS context and awaits coro_fn()"""

    async def main():
        _I.ENV.set(env)
        return await coro_fn()

    return main()


def _rc_obs(x):
    return [x.requirement_constraints_fulfilled, x.requirement_is_conditional, x.format_constraints_expression, x.hints]


def _ahb_obs(x):
    return [str(x.requirement_indicator)] + _rc_obs(x.requirement_constraint_evaluation_result) + \
           [x.format_constraint_evaluation_result.format_constraints_fulfilled, x.format_constraint_evaluation_result.error_message]


# ---------------------------------------------------------------------------------------------------------------------
# harnesses: name -> function(params, yields_override) -> main_factory(sched)
# every harness returns a JSON-able observation
# ---------------------------------------------------------------------------------------------------------------------
def h1(params, zero):
    rcv = dict(zip(("1", "2", "3"), PERMS[params["perm"]]))
    hints = {"501": "Hinweis A", "502": "Hinweis B"}
    expr = ["[1] U ([2] O [3]) U [501] U [502]", "([1] X [2]) O [3] U [502] U [501]", "[501] U [3] U ([502] U [2] X [1])",
            "([1] U [2]) O ([1] U [3]) U [501] U [501]"][params["expr"]]  # the last one repeats keys

    def factory(sched):
        env = _env(sched, rc=rcv, hints=hints, yields={"*": 0} if zero else None)

        async def go():
            return _rc_obs(await _I.requirement_constraint_evaluation(expr))

        return _with_env(env, go)

    return factory


H2_EXPRS = ["[901] U ([902] O [903]) X [904]", "([904] O [901]) U [903] X [902]"]
H2_SYNC = [[], ["902"], ["901", "903"], ["904"], ["901", "902", "903"]]  # keys answered by PLAIN evaluate methods (the others are coroutine methods)


def h2(params, zero):
    vals = params["vals"]
    fc = {k: (bool(v), None if v else f"msg {k}") for k, v in zip(("901", "902", "903", "904"), vals)}
    expr = H2_EXPRS[params["expr"]]
    sync = {("fc", k) for k in H2_SYNC[params.get("sync", 0)]}

    def factory(sched):
        env = _env(sched, fc=fc, yields={"*": 0} if zero else None, sync=sync)

        async def go():
            r = await _I.format_constraint_evaluation(expr)
            return [r.format_constraints_fulfilled, r.error_message]

        return _with_env(env, go)

    return factory


H3_EXPRS = ["Muss [1][901] Soll [2] U [502] Kann", "Muss [2] U [501] Soll [1][902]", "Muss [3] Soll [2][901] Kann [1] U [501][902]",
            "X [1] U [2][901] U [501]",
            # parts that raise InvalidExpressionError (first / last / middle): the same exception class in every order
            "Muss [1] Kann [2] O [501]", "Muss [2] X [501] Soll [1] U [3]", "Muss [1] U [3] Soll [2] O [501] Kann [3][901]"]


def h3(params, zero):
    rcv = dict(zip(("1", "2", "3"), PERMS[params["perm"]]))
    fc = {"901": (True, None), "902": (False, "msg 902")}
    hints = {"501": "Hinweis A", "502": "Hinweis B"}
    expr = H3_EXPRS[params["expr"]]

    def factory(sched):
        env = _env(sched, rc=rcv, fc=fc, hints=hints, yields={"*": 0} if zero else None)

        async def go():
            tree = await _I.parse_expression_including_unresolved_subexpressions(expr)
            return _ahb_obs(await _I.evaluate_ahb_expression_tree(tree))

        return _with_env(env, go)

    return factory


H4_EXPRS = ["[1P] U ([2P] O [1P]) U [3P]", "([1P] O [3]) U [2P]", "[1P][901] X [2P]", "Muss [1P] U [3P] Soll [2P] O [1P]"]
H4_PACKAGES = {"1P": "[11] O [12]", "2P": "[21][901]", "3P": "[31] X [UB1]"}


def h4(params, zero):
    expr = H4_EXPRS[params["expr"]]
    packages = dict(H4_PACKAGES)
    if params.get("missing"):
        del packages[params["missing"]]

    def factory(sched):
        env = _env(sched, packages=packages, yields={"*": 0} if zero else None)

        async def go():
            try:
                if params.get("via") == "resolver":
                    t = await _I.parse_expression_including_unresolved_subexpressions(expr, resolve_packages=True)
                else:
                    t0 = await _I.parse_expression_including_unresolved_subexpressions(expr, resolve_packages=False,
                                                                                        replace_time_conditions=False)
                    t = await _I.expand_packages(t0)
                return ["tree", repr(_I.tree_to_tuple(t))]
            except NotImplementedError:
                return ["NotImplementedError"]

        return _with_env(env, go)

    return factory


H5_MIXED = ["Muss [2] Kann", "Muss [1] U [501]", "Muss [501]", "X [1][901]", "Soll [2] U [1] Kann [3] Muss", "Muss [1] Soll [2] Kann [501][902]"]


def h5(params, zero):
    """concurrent evaluations, each with its own context-local data"""
    n = params["n"]
    expr = ["Muss [1] U [2] U [501]", "Muss [1] U ([2] O [3]) U [501] Soll [2][901]", "Muss [501][901] U [902] Kann [1][901]"][params.get("expr", 0)]
    # "mixed": the concurrent evaluations work on DIFFERENT expressions (one part / several parts / bare indicator / hint only)
    exprs = [expr] * n if not params.get("mixed") else [H5_MIXED[(params["mixed"] + i) % len(H5_MIXED)] for i in range(n)]
    datas = []
    for i in range(n):
        rcv = dict(zip(("1", "2", "3"), PERMS[(params["perm"] + 2 * i) % 6]))
        datas.append({"rc": rcv, "fc": {"901": (i % 2 == 0, None if i % 2 == 0 else f"msg {i}"), "902": (i % 2 == 1, None if i % 2 == 1 else f"m902 {i}")},
                      "hints": {"501": f"Hinweis von {i}"}})

    def factory(sched):
        async def one(i):
            _I.ENV.set(_env(sched, yields={"*": 0} if zero else None, tag=f"e{i}/", **datas[i]))
            tree = await _I.parse_expression_including_unresolved_subexpressions(exprs[i])
            return _ahb_obs(await _I.evaluate_ahb_expression_tree(tree))

        async def main():
            loop = asyncio.get_running_loop()
            tasks = [loop.create_task(one(i), context=contextvars.copy_context()) for i in _which(params, n)]
            return _results(await asyncio.gather(*tasks, return_exceptions=True))

        return main()

    return factory


def _results(results):
    """results of concurrent evaluations; an evaluation that raised is observed as its exception class"""
    for x in results:
        if isinstance(x, BaseException) and not isinstance(x, Exception) and type(x).__name__ != "InvalidExpressionError":
            raise x
    return [["exception", type(x).__name__] if isinstance(x, BaseException) else x for x in results]


def _which(params, n):
    """the concurrent evaluations a harness starts: all n, or only one of them (solo run for the oracle)"""
    return range(n) if params.get("only") is None else [params["only"]]


def h6(params, zero):
    expr = ["Muss [1] U [501]", "Muss [1] O [501]", "Muss [1][901]", "Muss [2] Soll [1] X [501]"][params["expr"]]

    def factory(sched):
        handed_out = []

        def setter(cer):
            tag = "".join(_I.STATE_NAME[v] for v in cer.requirement_constraints.values()) + "".join(
                "ft"[v.format_constraint_fulfilled] for v in cer.format_constraints.values()) + "/"
            handed_out.append(tag)
            _I.ENV.set(_env(sched, rc={k: _I.STATE_NAME[v] for k, v in cer.requirement_constraints.items()},
                            fc={k: (v.format_constraint_fulfilled, v.error_message) for k, v in cer.format_constraints.items()},
                            hints=dict(cer.hints), yields={"*": 0} if zero else None, tag=tag))

        async def go():
            ok, msg = await _I.is_valid_expression(expr, setter)
            # third component: the SAME content evaluation result was handed to more than one of the concurrent evaluations
            # (each evaluation is to run on the data produced for it; an implementation that never calls the setter is fine)
            return [ok, msg is None, len(set(handed_out)) != len(handed_out)]

        return _with_env(_I.Env(), go)

    return factory


def h7(params, zero):
    """evaluator-kind matrix over 3 keys (RC, RC, FC)"""
    kinds = params["kinds"]  # e.g. ["sync", "y2", "imm"]
    keys = [("rc", "1"), ("rc", "2"), ("fc", "901")]
    yields = {"*": 1}
    sync = set()
    for (kind, key), k in zip(keys, kinds):
        if k == "sync":
            sync.add((kind, key))
        else:
            yields[(kind, key)] = {"imm": 0, "y1": 1, "y2": 2}[k]
    rcv = {"1": "F", "2": "U", "3": "?"}
    fc = {"901": (False, "msg 901"), "902": (True, None)}
    expr = "Muss ([1] X [2])[901] U [3] Soll [2][902]"

    def factory(sched):
        env = _env(sched, rc=rcv, fc=fc, yields={"*": 0} if zero else yields, sync=sync)

        async def go():
            tree = await _I.parse_expression_including_unresolved_subexpressions(expr)
            return _ahb_obs(await _I.evaluate_ahb_expression_tree(tree))

        return _with_env(env, go)

    return factory


H8_PACKAGES = [{"1P": "[1] O [2]", "2P": "[1]"}, {"1P": "[2] X [1]", "2P": "[2] U [1]"}, {"1P": "[2]", "2P": "[1] O [2]"}]


def h8(params, zero):
    """the library's own ContentEvaluationResult-based evaluators (inject provider evaluated per call inside each task's
    context): two concurrent evaluations with different content evaluation results for the same keys"""
    from ahbicht.content_evaluation.evaluationdatatypes import EvaluatableData, EvaluatableDataProvider
    from ahbicht.content_evaluation.evaluator_factory import create_content_evaluation_result_based_evaluators
    from ahbicht.content_evaluation.token_logic_provider import SingletonTokenLogicProvider, TokenLogicProvider
    from ahbicht.models.content_evaluation_result import ContentEvaluationResult, ContentEvaluationResultSchema
    import inject

    n = params["n"]
    expr = "Muss [1] U [501] Soll [2][901]" if not params.get("pk") else "Muss [1] U [1P] U [501] Soll [2][901] U [2P]"
    var = contextvars.ContextVar("cer_body", default=None)
    bodies = []
    for i in range(n):
        cer = ContentEvaluationResult(
            id=uuid.UUID("d106f335-f663-4d14-9636-4f43a883ad26"),  # ids are not unique: every evaluation's result carries the same one
            hints={"501": f"Hinweis von {i}"},
            format_constraints={"901": _I.EvaluatedFormatConstraint(format_constraint_fulfilled=i % 2 == 0,
                                                                    error_message=None if i % 2 == 0 else f"msg {i}")},
            requirement_constraints={"1": _I.STATE[PERMS[(params["perm"] + i) % 6][0]], "2": _I.STATE[PERMS[(params["perm"] + i) % 6][1]]}
            if not params.get("pk") else dict(zip("12", (_I.STATE[x] for x in ["FU", "UF", "FF", "UU"][(params["perm"] + i) % 4]))),
            # the same package keys with other expressions in every evaluation's own content evaluation result
            packages=H8_PACKAGES[i % len(H8_PACKAGES)] if params.get("pk") else None,
        )
        bodies.append(ContentEvaluationResultSchema().dump(cer))

    def factory(sched):
        evaluators = create_content_evaluation_result_based_evaluators(_I.FMT, _I.FMTV)

        def provide():
            return EvaluatableData(body=var.get(), edifact_format=_I.FMT, edifact_format_version=_I.FMTV)

        def configure(binder):
            binder.bind(TokenLogicProvider, SingletonTokenLogicProvider([*evaluators]))
            binder.bind_to_provider(EvaluatableDataProvider, provide)

        async def one(i):
            var.set(bodies[i])
            if not zero:
                await sched.point(f"e{i}/start")
            tree = await _I.parse_expression_including_unresolved_subexpressions(expr, resolve_packages=bool(params.get("pk")))
            if not zero:
                await sched.point(f"e{i}/parsed")
            return _ahb_obs(await _I.evaluate_ahb_expression_tree(tree)) + ([repr(_I.tree_to_tuple(tree))] if params.get("pk") else [])

        async def main():
            inject.clear_and_configure(configure)
            try:
                loop = asyncio.get_running_loop()
                tasks = [loop.create_task(one(i), context=contextvars.copy_context()) for i in _which(params, n)]
                return _results(await asyncio.gather(*tasks, return_exceptions=True))
            finally:
                _I._configured = False
                _I.setup()

        return main()

    return factory


def h9(params, zero):
    """H1 / H3 with a hints provider whose get_hint_text is synchronous (separate code path in HintsProvider.get_hints)"""
    inner = (h1 if params["base"] == "H1" else h3)(params, zero)

    def factory(sched):
        async def main():
            _I.setup(sync_hints=True)
            try:
                return await inner(sched)
            finally:
                _I.setup()

        return main()

    return factory


def h10(params, zero):
    """ONE token logic provider that serves two format versions of the same format with different evaluators / hints / packages;
    concurrent evaluations carry different format versions in their context-local evaluatable data"""
    from efoli import EdifactFormatVersion

    from ahbicht.content_evaluation.evaluationdatatypes import EvaluatableData, EvaluatableDataProvider, EvaluationContext
    from ahbicht.content_evaluation.fc_evaluators import FcEvaluator
    from ahbicht.content_evaluation.rc_evaluators import RcEvaluator
    from ahbicht.content_evaluation.token_logic_provider import SingletonTokenLogicProvider, TokenLogicProvider
    from ahbicht.expressions.hints_provider import DictBasedHintsProvider
    from ahbicht.expressions.package_expansion import DictBasedPackageResolver
    import inject

    from efoli import EdifactFormat

    # (format, version) pairs: two versions of one format, or - "formats" - a general and a specific format of one version,
    # registered in either order
    versions = [(_I.FMT, EdifactFormatVersion.FV2104), (_I.FMT, EdifactFormatVersion.FV2210)]
    if params.get("formats"):
        versions = [(EdifactFormat.UTILMD, _I.FMTV), (EdifactFormat.UTILMDS, _I.FMTV)]
    assign = params["versions"]  # evaluation i carries versions[assign[i]]
    n = len(assign)
    expr = "Muss [1][901] U [501] Soll [2][901] U [1P]"
    who = contextvars.ContextVar("h10_task", default=None)

    def factory(sched):
        async def point(what):
            if not zero:
                await sched.point(f"e{who.get()}/{what}")

        def make(v):
            tag = f"v{v}"

            class Rc(RcEvaluator):
                edifact_format = versions[v][0]
                edifact_format_version = versions[v][1]

                def _get_default_context(self):
                    return EvaluationContext(scope=None)

                async def evaluate_1(self, evaluatable_data, context):
                    await point(f"rc:1@{tag}")
                    return _I.STATE["F" if v == 0 else "U"]

                async def evaluate_2(self, evaluatable_data, context):
                    await point(f"rc:2@{tag}")
                    return _I.STATE["U" if v == 0 else "F"]

            class Fc(FcEvaluator):
                edifact_format = versions[v][0]
                edifact_format_version = versions[v][1]

                async def evaluate_901(self, entered_input):
                    await point(f"fc:901@{tag}")
                    return _I.EvaluatedFormatConstraint(format_constraint_fulfilled=v == 0, error_message=None if v == 0 else f"msg {tag}")

            hp = DictBasedHintsProvider({"501": f"Hinweis {tag}"})
            pr = DictBasedPackageResolver({"1P": "[1]" if v == 0 else "[2]"})
            for x in (hp, pr):
                x.edifact_format, x.edifact_format_version = versions[v]
            return [Rc(), Fc(), hp, pr]

        provider = SingletonTokenLogicProvider(make(1) + make(0) if params.get("formats") == "specific-first" else make(0) + make(1))
        version_of = contextvars.ContextVar("h10_version", default=None)

        def configure(binder):
            binder.bind(TokenLogicProvider, provider)
            binder.bind_to_provider(EvaluatableDataProvider,
                                    lambda: EvaluatableData(body=None, edifact_format=version_of.get()[0], edifact_format_version=version_of.get()[1]))

        async def one(i):
            who.set(i)
            version_of.set(versions[assign[i]])
            await point("start")
            tree = await _I.parse_expression_including_unresolved_subexpressions(expr, resolve_packages=True)
            return _ahb_obs(await _I.evaluate_ahb_expression_tree(tree)) + [repr(_I.tree_to_tuple(tree))]

        async def main():
            inject.clear_and_configure(configure)
            try:
                loop = asyncio.get_running_loop()
                tasks = [loop.create_task(one(i), context=contextvars.copy_context()) for i in _which(params, n)]
                return _results(await asyncio.gather(*tasks, return_exceptions=True))
            finally:
                _I._configured = False
                _I.setup()

        return main()

    return factory


def _claim_context(context, owner):
    """a user evaluate method narrows the scope of the EvaluationContext it was handed (the context built for THIS key of THIS
    evaluation); finding it already claimed means the object is shared with another key / evaluation"""
    if context is not None:
        if context.scope is not None:
            raise RuntimeError(f"context of {owner} already used by {context.scope}")
        context.scope = owner


def _check_context(context, owner):
    if context is not None and context.scope != owner:
        raise RuntimeError(f"context of {owner} was changed to {context.scope} while the method was suspended")


H11_RC_EXPRS = ["[2] U ([1] O [3]) U [501]", "[3] U ([2] O [1]) U [501]", "([1] O [3]) U [2]", "[1] U ([2] O [3])"]  # asymmetric in every pair of keys


def h11(params, zero):
    """user-style evaluators with REAL evaluate_<key> methods, some plain functions and some coroutine functions that suspend
    (the library discovers them by name; 931-935 are inherited plain methods): RC keys 1, 3 and FC keys 901, 903 are coroutine
    methods, RC key 2 and FC keys 902, 904 plain ones"""
    from ahbicht.content_evaluation.evaluationdatatypes import EvaluatableData, EvaluatableDataProvider, EvaluationContext
    from ahbicht.content_evaluation.fc_evaluators import FcEvaluator
    from ahbicht.content_evaluation.rc_evaluators import RcEvaluator
    from ahbicht.content_evaluation.token_logic_provider import SingletonTokenLogicProvider, TokenLogicProvider
    from ahbicht.expressions.hints_provider import DictBasedHintsProvider
    import inject

    what = params["what"]
    if what == "fc":
        expr = H2_EXPRS[params["expr"]]
        fcv = {k: (bool(v), None if v else f"msg {k}") for k, v in zip(("901", "902", "903", "904"), params["vals"])}
        rcv = {}
    else:
        expr = H11_RC_EXPRS[params["expr"]]
        rcv = dict(zip(("1", "2", "3"), PERMS[params["perm"]]))
        fcv = {}

    def factory(sched):
        async def point(what_):
            if not zero:
                await sched.point(what_)

        def rc_method(key, is_async):
            # the methods WORK with the EvaluationContext they are handed: narrow its scope to their key, suspend, use it again
            if is_async:
                async def evaluate(self, evaluatable_data, context):
                    _claim_context(context, key)
                    await point(f"rc:{key}")
                    _check_context(context, key)
                    return _I.STATE[rcv[key]]
            else:
                def evaluate(self, evaluatable_data, context):
                    _claim_context(context, key)
                    return _I.STATE[rcv[key]]
            return evaluate

        def fc_method(key, is_async):
            if is_async:
                async def evaluate(self, entered_input):
                    await point(f"fc:{key}")
                    return _I.EvaluatedFormatConstraint(format_constraint_fulfilled=fcv[key][0], error_message=fcv[key][1])
            else:
                def evaluate(self, entered_input):
                    return _I.EvaluatedFormatConstraint(format_constraint_fulfilled=fcv[key][0], error_message=fcv[key][1])
            return evaluate

        rc_ns = {f"evaluate_{k}": rc_method(k, k in ("1", "3")) for k in rcv}
        rc_ns.update(edifact_format=_I.FMT, edifact_format_version=_I.FMTV, _get_default_context=lambda self: EvaluationContext(scope=None))
        fc_ns = {f"evaluate_{k}": fc_method(k, k in ("901", "903")) for k in fcv}
        fc_ns.update(edifact_format=_I.FMT, edifact_format_version=_I.FMTV)
        hp = DictBasedHintsProvider({"501": "Hinweis"})
        hp.edifact_format, hp.edifact_format_version = _I.FMT, _I.FMTV
        provider = SingletonTokenLogicProvider([type("UserRc", (RcEvaluator,), rc_ns)(), type("UserFc", (FcEvaluator,), fc_ns)(), hp])

        def configure(binder):
            binder.bind(TokenLogicProvider, provider)
            binder.bind_to_provider(EvaluatableDataProvider,
                                    lambda: EvaluatableData(body=None, edifact_format=_I.FMT, edifact_format_version=_I.FMTV))

        async def main():
            inject.clear_and_configure(configure)
            try:
                if what == "fc":
                    r = await _I.format_constraint_evaluation(expr)
                    return [r.format_constraints_fulfilled, r.error_message]
                return _rc_obs(await _I.requirement_constraint_evaluation(expr))
            finally:
                _I._configured = False
                _I.setup()

        return main()

    return factory


_H12_LONG_LIVED = {}


def h12(params, zero):
    """ONE long-lived user-style evaluator instance (as in an application that configures inject once) serves every explored
    execution - each execution runs on a NEW event loop (think of consecutive asyncio.run calls); the same key occurs several
    times in the expression and its coroutine method suspends"""
    from ahbicht.content_evaluation.evaluationdatatypes import EvaluatableData, EvaluatableDataProvider, EvaluationContext
    from ahbicht.content_evaluation.rc_evaluators import RcEvaluator
    from ahbicht.content_evaluation.token_logic_provider import SingletonTokenLogicProvider, TokenLogicProvider
    from ahbicht.expressions.hints_provider import DictBasedHintsProvider
    import inject

    expr = ["[1] U ([2] O [1]) U [501]", "Muss [2] U [1] Soll [1] U [3]"][params["expr"]]
    rcv = dict(zip(("1", "2", "3"), PERMS[params["perm"]]))
    key = json.dumps(params, sort_keys=True)
    current = {"sched": None, "zero": True}

    if key not in _H12_LONG_LIVED:
        async def point(what):
            if not current["zero"]:
                await current["sched"].point(what)

        def method(k):
            async def evaluate(self, evaluatable_data, context):
                await point(f"rc:{k}")
                return _I.STATE[rcv[k]]
            return evaluate

        ns = {f"evaluate_{k}": method(k) for k in rcv}
        ns.update(edifact_format=_I.FMT, edifact_format_version=_I.FMTV, _get_default_context=lambda self: EvaluationContext(scope=None))
        hp = DictBasedHintsProvider({"501": "Hinweis"})
        hp.edifact_format, hp.edifact_format_version = _I.FMT, _I.FMTV
        _H12_LONG_LIVED[key] = (SingletonTokenLogicProvider([type("LongLivedRc", (RcEvaluator,), ns)(), hp]), current)
    provider, current = _H12_LONG_LIVED[key]

    def factory(sched):
        current["sched"], current["zero"] = sched, zero

        def configure(binder):
            binder.bind(TokenLogicProvider, provider)
            binder.bind_to_provider(EvaluatableDataProvider,
                                    lambda: EvaluatableData(body=None, edifact_format=_I.FMT, edifact_format_version=_I.FMTV))

        async def main():
            inject.clear_and_configure(configure)
            try:
                if expr.startswith("["):
                    return _rc_obs(await _I.requirement_constraint_evaluation(expr))
                tree = await _I.parse_expression_including_unresolved_subexpressions(expr)
                return _ahb_obs(await _I.evaluate_ahb_expression_tree(tree))
            finally:
                _I._configured = False
                _I.setup()

        return main()

    return factory


def h13(params, zero):
    """user-style evaluators with real evaluate_<key> coroutine methods that compute their answer from the EVALUATABLE DATA they
    are handed (body from context-local storage); 2-3 concurrent evaluations with different data"""
    from ahbicht.content_evaluation.evaluationdatatypes import EvaluatableData, EvaluatableDataProvider, EvaluationContext
    from ahbicht.content_evaluation.fc_evaluators import FcEvaluator
    from ahbicht.content_evaluation.rc_evaluators import RcEvaluator
    from ahbicht.content_evaluation.token_logic_provider import SingletonTokenLogicProvider, TokenLogicProvider
    from ahbicht.expressions.hints_provider import DictBasedHintsProvider
    import inject

    n = params["n"]
    expr = "Muss [1] U [2] U [501] Soll [2][901]"
    opts = [("F", "U"), ("U", "F"), ("F", "F")]
    bodies = [{"i": i, "rc": dict(zip(("1", "2"), opts[(params["perm"] + i) % 3])), "fc": (i + params["perm"]) % 2 == 0} for i in range(n)]
    body_var = contextvars.ContextVar("h13_body", default=None)

    def factory(sched):
        async def point(what):
            if not zero:
                await sched.point(what)

        def rc_method(k):
            async def evaluate(self, evaluatable_data, context):
                _claim_context(context, (evaluatable_data.body["i"], k))
                await point(f"e{evaluatable_data.body['i']}/rc:{k}")
                _check_context(context, (evaluatable_data.body["i"], k))
                return _I.STATE[evaluatable_data.body["rc"][k]]
            return evaluate

        rc_ns = {f"evaluate_{k}": rc_method(k) for k in ("1", "2")}
        rc_ns.update(edifact_format=_I.FMT, edifact_format_version=_I.FMTV, _get_default_context=lambda self: EvaluationContext(scope=None))

        async def evaluate_901(self, entered_input):
            b = body_var.get()
            await point(f"e{b['i']}/fc:901")
            return _I.EvaluatedFormatConstraint(format_constraint_fulfilled=b["fc"], error_message=None if b["fc"] else f"msg {b['i']}")

        fc_ns = {"evaluate_901": evaluate_901, "edifact_format": _I.FMT, "edifact_format_version": _I.FMTV}
        hp = DictBasedHintsProvider({"501": "Hinweis"})
        hp.edifact_format, hp.edifact_format_version = _I.FMT, _I.FMTV
        provider = SingletonTokenLogicProvider([type("DataRc", (RcEvaluator,), rc_ns)(), type("DataFc", (FcEvaluator,), fc_ns)(), hp])

        def configure(binder):
            binder.bind(TokenLogicProvider, provider)
            binder.bind_to_provider(EvaluatableDataProvider,
                                    lambda: EvaluatableData(body=body_var.get(), edifact_format=_I.FMT, edifact_format_version=_I.FMTV))

        async def one(i):
            body_var.set(bodies[i])
            await point(f"e{i}/start")
            tree = await _I.parse_expression_including_unresolved_subexpressions(expr)
            return _ahb_obs(await _I.evaluate_ahb_expression_tree(tree))

        async def main():
            inject.clear_and_configure(configure)
            try:
                loop = asyncio.get_running_loop()
                tasks = [loop.create_task(one(i), context=contextvars.copy_context()) for i in _which(params, n)]
                return _results(await asyncio.gather(*tasks, return_exceptions=True))
            finally:
                _I._configured = False
                _I.setup()

        return main()

    return factory


H14_ORDERS = [["1", "2", "3", "4"], ["3", "1", "4", "2"], ["4", "3", "2", "1"], ["2", "4", "1", "3"]]


def h14(params, zero):
    """the public batch methods called DIRECTLY with explicit arguments (no expression, no tree): RcEvaluator.evaluate_conditions
    with its optional condition_keys_with_context (a sub-set of the keys has its OWN EvaluationContext with its own scope, the
    others run in the default context), FcEvaluator.evaluate_format_constraints and HintsProvider.get_hints with the keys handed
    over in a caller-chosen order.  Every method reports the scope it was handed; methods of odd keys are coroutines that
    suspend, even ones are plain."""
    from ahbicht.content_evaluation.evaluationdatatypes import EvaluatableData, EvaluatableDataProvider, EvaluationContext
    from ahbicht.content_evaluation.fc_evaluators import FcEvaluator
    from ahbicht.content_evaluation.rc_evaluators import RcEvaluator
    from ahbicht.expressions.hints_provider import HintsProvider
    import inject

    what = params["what"]
    order = H14_ORDERS[params["order"]]
    ctx_mask = params.get("ctx") or 0  # bit i set: i-th key OF THE ORDER gets its own context
    vals = list(PERMS[params["perm"] % 6]) + [PERMS[(params["perm"] + 1) % 6][0]]  # 4 states, not all equal

    def factory(sched):
        async def point(what_):
            if not zero:
                await sched.point(what_)

        seen = {}

        def rc_method(key, is_async, val):
            if is_async:
                async def evaluate(self, evaluatable_data, context):
                    seen[key] = context.scope if context is not None else "NO-CONTEXT"
                    await point(f"rc:{key}")
                    seen[key] = [seen[key], context.scope if context is not None else "NO-CONTEXT"]
                    return _I.STATE[val]
            else:
                def evaluate(self, evaluatable_data, context):
                    seen[key] = [context.scope if context is not None else "NO-CONTEXT"] * 2
                    return _I.STATE[val]
            return evaluate

        def fc_method(key, is_async, ok):
            if is_async:
                async def evaluate(self, entered_input):
                    await point(f"fc:{key}")
                    return _I.EvaluatedFormatConstraint(format_constraint_fulfilled=ok, error_message=None if ok else f"msg {key}")
            else:
                def evaluate(self, entered_input):
                    return _I.EvaluatedFormatConstraint(format_constraint_fulfilled=ok, error_message=None if ok else f"msg {key}")
            return evaluate

        data = EvaluatableData(body=None, edifact_format=_I.FMT, edifact_format_version=_I.FMTV)

        async def main():
            def configure(binder):
                binder.bind_to_provider(EvaluatableDataProvider, lambda: data)

            inject.clear_and_configure(configure)
            try:
                if what == "rc":
                    ns = {f"evaluate_{k}": rc_method(k, int(k) % 2 == 1, v) for k, v in zip(("1", "2", "3", "4"), vals)}
                    ns.update(edifact_format=_I.FMT, edifact_format_version=_I.FMTV,
                              _get_default_context=lambda self: EvaluationContext(scope="DEFAULT"))
                    ev = type("UserRc14", (RcEvaluator,), ns)()
                    with_ctx = {k: EvaluationContext(scope=f"scope-of-{k}") for i, k in enumerate(order) if ctx_mask >> i & 1}
                    got = await ev.evaluate_conditions(list(order), data, with_ctx if params.get("ctx") is not None else None)
                    return [sorted([k, str(v.name if hasattr(v, "name") else v)] for k, v in got.items()), sorted(seen.items())]
                if what == "fc":
                    ns = {f"evaluate_{900 + int(k)}": fc_method(str(900 + int(k)), int(k) % 2 == 1, v == "F")
                          for k, v in zip(("1", "2", "3", "4"), vals)}
                    ns.update(edifact_format=_I.FMT, edifact_format_version=_I.FMTV)
                    ev = type("UserFc14", (FcEvaluator,), ns)()
                    from ahbicht.content_evaluation.fc_evaluators import text_to_be_evaluated_by_format_constraint
                    text_to_be_evaluated_by_format_constraint.set("eingabe")
                    got = await ev.evaluate_format_constraints([str(900 + int(k)) for k in order])
                    return [sorted([k, v.format_constraint_fulfilled, v.error_message] for k, v in got.items())]
                texts = {str(500 + int(k)): f"Hinweis {k} {v}" for k, v in zip(("1", "2", "3", "4"), vals)}

                class UserHints14(HintsProvider):
                    edifact_format, edifact_format_version = _I.FMT, _I.FMTV

                    async def get_hint_text(self, condition_key):
                        if int(condition_key) % 2 == 1:
                            await point(f"hint:{condition_key}")
                        return texts[condition_key]

                got = await UserHints14().get_hints([str(500 + int(k)) for k in order])
                return [sorted([k, v.condition_key, v.hint] for k, v in got.items())]
            finally:
                _I._configured = False
                _I.setup()

        return main()

    return factory


def _h14_want(params):
    """absolute expectation, written down from the statement: every key paired with the value produced for it; a key with its
    own context is evaluated in exactly that context, every other key in the default context"""
    order = H14_ORDERS[params["order"]]
    vals = list(PERMS[params["perm"] % 6]) + [PERMS[(params["perm"] + 1) % 6][0]]
    by_key = dict(zip(("1", "2", "3", "4"), vals))
    if params["what"] == "rc":
        names = {"F": "FULFILLED", "U": "UNFULFILLED", "?": "UNKNOWN"}
        mask = params.get("ctx")
        seen = []
        for i, k in enumerate(order):
            sc = f"scope-of-{k}" if mask is not None and mask >> i & 1 else "DEFAULT"
            seen.append([k, [sc, sc]])
        return [sorted([k, names[v]] for k, v in by_key.items()), sorted(seen)]
    if params["what"] == "fc":
        return [sorted([str(900 + int(k)), v == "F", None if v == "F" else f"msg {900 + int(k)}"] for k, v in by_key.items())]
    return [sorted([str(500 + int(k)), str(500 + int(k)), f"Hinweis {k} {v}"] for k, v in by_key.items())]


HARNESS = {"H14": h14, "H12": h12, "H13": h13, "H11": h11, "H10": h10, "H1": h1, "H2": h2, "H3": h3, "H4": h4, "H5": h5, "H6": h6, "H7": h7, "H8": h8, "H9": h9}


def plan(tier, seed):
    b = BOUNDS[tier]
    items = []

    def add(name, params, order_bound=None):
        items.append({"h": name, "params": params, "order_bound": order_bound, "early": b["early"]})

    for o in range(len(H14_ORDERS)):
        for ctx in (None, 0, 5, 10, 15, 6):
            add("H14", {"what": "rc", "order": o, "perm": (o + (ctx or 0)) % 6, "ctx": ctx})
        add("H14", {"what": "fc", "order": o, "perm": o})
        add("H14", {"what": "fc", "order": o, "perm": o + 3})
        add("H14", {"what": "hints", "order": o, "perm": o + 1})
    for perm in range(6):
        for e in range(4):
            add("H1", {"perm": perm, "expr": e}, order_bound=None if e < 3 else b["large_order_bound"] + 1)
    for vals in itertools.product((0, 1), repeat=4):
        add("H2", {"vals": list(vals), "expr": sum(vals) % 2})
        for sy in range(1, len(H2_SYNC)):
            add("H2", {"vals": list(vals), "expr": (sum(vals) + sy) % 2, "sync": sy})
    for perm in range(6):
        for e in range(len(H3_EXPRS)):
            add("H3", {"perm": perm, "expr": e}, order_bound=b["large_order_bound"] if e == 2 else None)
    for e in range(len(H4_EXPRS)):
        add("H4", {"expr": e, "via": "expand"})
        add("H4", {"expr": e, "via": "resolver"})
        for missing in ("1P", "2P", "3P"):
            add("H4", {"expr": e, "via": "expand", "missing": missing})
    for perm in range(6):
        add("H5", {"n": 2, "perm": perm, "expr": 0})
    add("H5", {"n": 3, "perm": 0, "expr": 0}, order_bound=b["large_order_bound"])
    add("H5", {"n": 2, "perm": 1, "expr": 1}, order_bound=b["large_order_bound"])
    for perm in (0, 3):
        add("H5", {"n": 2, "perm": perm, "expr": 2}, order_bound=b["large_order_bound"] + 1)
    add("H5", {"n": 3, "perm": 0, "expr": 2}, order_bound=b["large_order_bound"])
    for m in range(1, len(H5_MIXED) + 1):
        add("H5", {"n": 2, "perm": m % 6, "mixed": m}, order_bound=b["large_order_bound"] + 1)
    add("H5", {"n": 3, "perm": 1, "mixed": 1}, order_bound=b["large_order_bound"])
    add("H5", {"n": 3, "perm": 4, "mixed": 4}, order_bound=b["large_order_bound"])
    for e in range(3 if tier == "quick" else 4):
        add("H6", {"expr": e}, order_bound=None if e in (0, 1) else (b["large_order_bound"] if e == 2 else 1))
    for kinds in itertools.product(("sync", "imm", "y1", "y2"), repeat=3):
        add("H7", {"kinds": list(kinds)})
    for perm in (0, 3):
        add("H8", {"n": 2, "perm": perm})
    add("H8", {"n": 2, "perm": 1, "pk": True})
    add("H8", {"n": 3, "perm": 2, "pk": True}, order_bound=b["large_order_bound"])
    for assign in ([0, 1], [1, 0]):
        add("H10", {"versions": assign}, order_bound=b["large_order_bound"] + 1 if tier == "quick" else None)
    add("H10", {"versions": [0, 1, 0]}, order_bound=b["large_order_bound"])
    for order in ("general-first", "specific-first"):
        for assign in ([0, 1], [1, 0]):
            add("H10", {"versions": assign, "formats": order}, order_bound=b["large_order_bound"])
    for perm in range(6):
        for e in (0, 1):
            add("H12", {"perm": perm, "expr": e})
    for perm in (0, 2, 4):
        add("H13", {"n": 2, "perm": perm}, order_bound=b["large_order_bound"] + 1)
    add("H13", {"n": 3, "perm": 1}, order_bound=b["large_order_bound"])
    for vals in itertools.product((0, 1), repeat=4):
        for e in range(len(H2_EXPRS)):
            add("H11", {"what": "fc", "vals": list(vals), "expr": e})
    for perm in range(6):
        for e in range(len(H11_RC_EXPRS)):
            add("H11", {"what": "rc", "perm": perm, "expr": e})
    for perm in (0, 2, 5):
        for e in range(3):
            add("H9", {"base": "H1", "perm": perm, "expr": e})
        for e in (0, 1):
            add("H9", {"base": "H3", "perm": perm, "expr": e})
    return items


def _missing_occurs(params):
    return bool(params.get("missing")) and ("[" + params["missing"] + "]") in H4_EXPRS[params["expr"]]


def _h4_pairing_violation(item, base):
    """H4 only: the zero-yield result itself must be the tree of the textually substituted expression (R6), compared after
    flattening U/O/X runs (I3)"""
    if item["h"] != "H4" or item["params"].get("missing"):
        return None
    from mc.ref import condparse as R2
    from mc.ref import subst as R6

    expr = H4_EXPRS[item["params"]["expr"]]
    via_resolver = item["params"].get("via") == "resolver"
    sub = R6.substitute(expr, H4_PACKAGES, True, via_resolver)
    ops = ("or_composition", "xor_composition", "and_composition")
    want = R2.flatten(_I.tree_to_tuple(_I.run(_I.parse_expression_including_unresolved_subexpressions(
        sub, resolve_packages=False, replace_time_conditions=False), _I.Env())), ops)
    got = json.loads(base)
    if got[0] != "tree":
        return (repr(want)[:300], got)
    import ast

    got_tree = R2.flatten(ast.literal_eval(got[1]), ops)
    return None if got_tree == want else (repr(want)[:400], repr(got_tree)[:400])


def _observe(ex):
    if ex.exception is not None:
        return json.dumps(["exception", type(ex.exception).__name__])
    return json.dumps(ex.result, ensure_ascii=False, default=repr)


def _baseline(item):
    ex = vloop.run_schedule(HARNESS[item["h"]](item["params"], True), [])
    if ex.created != 0:
        raise vloop.ScheduleError("baseline run suspended on a harness future")
    return _observe(ex)


SOLO = {"H5": lambda p: p["n"], "H8": lambda p: p["n"], "H10": lambda p: len(p["versions"]), "H13": lambda p: p["n"]}


def _solo_violations(item, base):
    """concurrent evaluations equal their SOLO results: evaluation i alone (fresh evaluators, nothing else running)"""
    if item["h"] not in SOLO:
        return []
    out = []
    got = json.loads(base)
    for i in range(SOLO[item["h"]](item["params"])):
        solo = json.loads(_baseline({"h": item["h"], "params": dict(item["params"], only=i)}))
        if got[0] == "exception" or solo[0] == "exception":
            out.append((i, solo, got))  # the harness main itself must not raise
        elif got[i] != solo[0]:
            out.append((i, solo[0], got[i]))
        elif got[i][0] == "exception" and (item["h"] == "H10" or item["params"].get("pk")):
            out.append((i, "a result (these harnesses are built so that every evaluation has a determined outcome)", got[i]))
    return out


def _absolute_violations(item, base):
    """absolute oracles on the zero-yield baseline (independent of any schedule): H2 = Boolean value under the documented
    precedence (R2) + message iff unfulfilled; H6 = no content evaluation result handed to two evaluations"""
    from mc.ref import condparse as R2

    got = json.loads(base)
    if item["h"] == "H14":
        want = json.loads(json.dumps(_h14_want(item["params"])))
        return [] if got == want else [("key-paired-with-wrong-value", want, got)]
    if item["h"] == "H11" and item["params"]["what"] == "rc":
        from mc.ref import reqeval as R3

        expr = H11_RC_EXPRS[item["params"]["expr"]]
        tt = _I.tree_to_tuple(_I.parse_condition_expression_to_tree(expr))
        want = list(R3.outcome(R3.state(tt, dict(zip(("1", "2", "3"), PERMS[item["params"]["perm"]])))))
        if got[0] == "exception" and want[0] is None:
            return []  # undetermined outcome: NotImplementedError is the documented behaviour
        if got[0] == "exception" or got[:2] != want:
            return [("key-paired-with-wrong-value", want, got)]
        return []
    if item["h"] == "H2" or (item["h"] == "H11" and item["params"]["what"] == "fc"):
        val = {k: bool(v) for k, v in zip(("901", "902", "903", "904"), item["params"]["vals"])}
        want = R2.to_bool(R2.parse(H2_EXPRS[item["params"]["expr"]]), val)
        if got[0] == "exception" or got[0] is not want or (got[1] is not None) != (not want):
            return [("key-paired-with-wrong-value", [want, "message" if not want else None], got)]
    return []


def _h6_dup(item, out):
    got = json.loads(out)
    return item["h"] == "H6" and got[0] != "exception" and len(got) > 2 and got[2] is True


def run_item(item):
    worker_init()
    r = Result()
    base = _baseline(item)
    for kind, want, got in _absolute_violations(item, base):
        r.violation(kind, {"h": item["h"], "params": item["params"], "choices": []}, want, got,
                    f"{item['h']} {item['params']}: the zero-yield result itself is wrong (reference: documented precedence)")
    if _h6_dup(item, base):
        r.violation("same-data-handed-to-several-evaluations", {"h": item["h"], "params": item["params"], "choices": []},
                    "pairwise different content evaluation results", "one content evaluation result handed to the setter more than once",
                    "is_valid_expression: each concurrent evaluation is to run on the content evaluation result produced for it")
    for i, solo, got in _solo_violations(item, base):
        r.violation("concurrent-differs-from-solo", {"h": item["h"], "params": item["params"], "choices": [], "solo": i}, solo, got,
                    f"{item['h']} {item['params']}: evaluation {i} run together with the others (zero-yield schedule) differs from its solo run")
    exp = vloop.explore(HARNESS[item["h"]](item["params"], False), _observe, order_bound=item["order_bound"], early_bound=0)
    if item["early"] and exp.schedules <= 400:
        # one early / batched completion per schedule on top of all orders - only where the order space itself is small
        exp = vloop.explore(HARNESS[item["h"]](item["params"], False), _observe, order_bound=item["order_bound"],
                            early_bound=item["early"])
        r.stat("harnesses_with_early_completion")
    r.evaluations = exp.schedules
    r.states = exp.decision_points
    r.transitions = exp.decision_points
    r.traces = exp.schedules
    r.nontrivial = max(0, len(exp.completion_traces) - 1)
    r.stat("schedules", exp.schedules)
    r.stat("choice_points", exp.choice_points)
    r.stat("distinct_completion_traces", len(exp.completion_traces))
    if item["order_bound"] is not None:
        r.stat("deviation_bounded_harnesses")
    r.outcomes.add((item["h"], json.dumps(item["params"], sort_keys=True), len(exp.outcomes)))
    pairing = _h4_pairing_violation(item, base)
    if pairing:
        r.violation("occurrence-paired-with-wrong-value", {"h": item["h"], "params": item["params"], "choices": []}, pairing[0], pairing[1],
                    "every package occurrence must be replaced by the expression produced for it (reference: textual substitution R6)")
    if _missing_occurs(item["params"]) and base != json.dumps(["NotImplementedError"]):
        r.violation("missing-package-unnoticed", {"h": item["h"], "params": item["params"], "choices": []}, "NotImplementedError", base)
    for out, n in exp.outcomes.items():
        if out != base:
            r.violation("depends-on-completion-order", {"h": item["h"], "params": item["params"],
                                                        "choices": exp.first_schedule_of_outcome[out]},
                        json.loads(base), json.loads(out),
                        f"{item['h']} {item['params']}: {n} of {exp.schedules} schedules differ from the zero-yield baseline")
    r.sample({"harness": item["h"], "params": item["params"], "schedules": exp.schedules,
              "distinct_completion_traces": len(exp.completion_traces), "example_trace": sorted(exp.completion_traces)[-1][:12]})
    return r


def replay(case):
    worker_init()
    item = {"h": case["h"], "params": case["params"]}
    base = _baseline(item)
    ex = vloop.run_schedule(HARNESS[case["h"]](case["params"], False), case["choices"])
    out = _observe(ex)
    vs = []
    for kind, want, got in _absolute_violations(item, base):
        vs.append({"kind": kind, "case": case, "expected": want, "observed": got})
    if _h6_dup(item, base):
        vs.append({"kind": "same-data-handed-to-several-evaluations", "case": case, "expected": "pairwise different content evaluation results",
                   "observed": "one content evaluation result handed to the setter more than once"})
    for i, solo, got in _solo_violations(item, base):
        vs.append({"kind": "concurrent-differs-from-solo", "case": case, "expected": solo, "observed": got})
    pairing = _h4_pairing_violation(item, base)
    if pairing:
        vs.append({"kind": "occurrence-paired-with-wrong-value", "case": case, "expected": pairing[0], "observed": pairing[1]})
    if _missing_occurs(case["params"]) and base != json.dumps(["NotImplementedError"]):
        vs.append({"kind": "missing-package-unnoticed", "case": case, "expected": "NotImplementedError", "observed": base})
    if out != base:
        vs.append({"kind": "depends-on-completion-order", "case": case, "expected": json.loads(base), "observed": json.loads(out)})
    return vs
