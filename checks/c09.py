"""C09 — AHB expressions split into their parts; the first fulfilled part decides (E1, R5)."""
import itertools

from mc.ref import ahbsplit as R5
from mc.runner import Result

ID = "C09"
TITLE = "AHB expressions split into their parts; the first fulfilled part decides"
ENGINE = "e1-bounded-enumeration"
ISOLATE_PARTITIONS = True  # hidden state (module-level objects) must not leak between partitions

MODAL_SPELLINGS = ["M", "m", "Muss", "muss", "MUSS", "mUsS", "S", "s", "Soll", "soll", "SOLL", "sOlL", "K", "k", "Kann", "kann",
                   "KANN", "kAnN"]
PREFIX_SPELLINGS = ["X", "O", "U", "x", "o", "u"]
WS = ["", " ", "\t", "\n "]
# condition-expression menu: chosen to stress the AHB lexer's character class / look-ahead and to produce every outcome
MENU = ["[1]", "[2]", "[3]", "[501]", "[1]u[2]", "[1] U [3]", "[2]O[1]", "[2] o [3]", "[1]X[2]", "[3]x[1]", "([1]∧[2])∨[3]",
        "[1][901]", "[2][902]", "([1]u[3])[902]", "[1P]", "[1]U[UB1]", "[1] U [501] U [901]", "[7P0..1]o[2]", "[501]u[901]",
        "(([3]))", "[2] U [902]", "[1]∧[902]", "[3] u [902] o [2]"]
OUTCOME_MENU = ["[1]", "[2]", "[3]", "[501]"]  # F / U / UNKNOWN / NEUTRAL under CER 0
STRESS_MENU = ["[1]u[2]", "[2]O[1]", "[3]x[1]", "([1]∧[2])∨[3]", "[1][901]"]
PACKAGES = {"1P": "[1] U [2]", "7P": "[3] X [1]"}
CERS = [{"1": "F", "2": "U", "3": "?"}, {"1": "U", "2": "?", "3": "F"}, {"1": "?", "2": "F", "3": "U"}, {"1": "F", "2": "?", "3": "U"},
        {"1": "U", "2": "F", "3": "?"}, {"1": "?", "2": "U", "3": "F"}]
FC = {"901": (True, None), "902": (False, "msg 902")}
HINTS = {"501": "Hinweis 501"}
HISTORY_MENU = ["Kann", "k", "X", "u", "Muss[2] Kann", "Muss[2]Soll[2]K", "Muss[1] Kann", "Soll [3] Kann", "M[2][902]S[1][901]", "X[1]",
                "o[2]", "Muss [2] U [902]", "Kann [2] u [902]", "Muss[1]u[2]Soll[3]x[1]Kann[501]", "Muss [501]", "S", "Muss [1P]",
                "Muss [2] Soll [1]U[UB1]"]
BOUNDS = {"quick": {"cers": 2, "ws_pairs": 4}, "thorough": {"cers": 6, "ws_pairs": 16}}


def describe(tier):
    b = BOUNDS[tier]
    return {
        "rule": f"AHB expressions built from parts (indicator spelling, whitespace, condition expression, whitespace): (A) one part: all "
                f"{len(MODAL_SPELLINGS)} modal-mark and {len(PREFIX_SPELLINGS)} prefix-operator spellings x all {len(MENU)} menu expressions x all "
                f"16 whitespace pairs, and all bare indicators; (B) two parts (+ optional bare final mark in 3 spellings): all 18x18 spelling "
                "pairs x all 4x4 outcome pairs, and all menu x menu pairs x whitespace pairs; (C) three parts (+ optional bare mark): all 4^3 "
                "outcome triples and all 5^3 lexer-stress triples with rotating spellings; (D) four and five parts: all 4^4 and all 4^5 outcome tuples (same mark repeated / all "
                "different, rotating whitespace, optional bare final mark); (H) every ordered pair (A; B) of an "
                f"{len(HISTORY_MENU)}-expression menu evaluated one after the other (hidden-state / history dependence); each x "
                f"{b['cers']} content evaluation results that permute which key is FULFILLED/UNFULFILLED/UNKNOWN. Oracle: (1) the "
                "unresolved parser's tokens are exactly (indicator as written, condition text - compared modulo whitespace) in order; (2) the resolved "
                "tree's parts are (indicator token as written, subtree == resolving that part's text alone); (3) the evaluation result equals "
                "R5 selection (first fulfilled part else last) applied to the parts' OWN requirement_constraint_evaluation + "
                "format_constraint_evaluation results: normalised indicator, requirement outcome, hints, FC expression, format result "
                "and message (is_conditional only for single-part expressions, I5). Non-trivial = expressions with >= 2 parts.",
        "bounds": b,
        "exhaustive": True,
        "assumptions": ["I5: requirement_is_conditional of a multi-part expression is not compared"],
    }


def _cases_A():
    for ind in MODAL_SPELLINGS + PREFIX_SPELLINGS:
        yield [(ind, None, None, None)]
        for cond in MENU:
            for w1 in WS:
                for w2 in WS:
                    yield [(ind, w1, cond, w2)]


def _cases_B(ws_pairs):
    wsl = [(a, b) for a in WS for b in WS][:ws_pairs] if ws_pairs < 16 else [(a, b) for a in WS for b in WS]
    finals = [None, "K", "Kann", "sOlL"]
    k = 0
    for i1 in MODAL_SPELLINGS:
        for i2 in MODAL_SPELLINGS:
            for c1 in OUTCOME_MENU:
                for c2 in OUTCOME_MENU:
                    k += 1
                    w = wsl[k % len(wsl)]
                    fin = finals[k % 4]
                    parts = [(i1, w[0], c1, w[1]), (i2, w[1], c2, w[0])]
                    if fin:
                        parts.append((fin, None, None, None))
                    yield parts
    for c1 in MENU:
        for c2 in MENU:
            for w in wsl:
                k += 1
                parts = [(MODAL_SPELLINGS[k % 18], w[0], c1, w[1]), (MODAL_SPELLINGS[(k * 7 + 3) % 18], w[1], c2, "")]
                if k % 3 == 0:
                    parts.append((MODAL_SPELLINGS[(k * 5) % 18], None, None, None))
                yield parts


def _cases_C():
    k = 0
    for menu in (OUTCOME_MENU, STRESS_MENU):
        for c1, c2, c3 in itertools.product(menu, repeat=3):
            for fin in (None, "kann"):
                for w in (("", ""), (" ", " ")):
                    k += 1
                    parts = [(MODAL_SPELLINGS[k % 18], w[0], c1, w[1]), (MODAL_SPELLINGS[(k * 5 + 1) % 18], w[0], c2, w[1]),
                             (MODAL_SPELLINGS[(k * 11 + 2) % 18], w[0], c3, "" if fin is None else w[1])]
                    if fin:
                        parts.append((fin, None, None, None))
                    yield parts


def _cases_D():
    """four and five parts: all outcome tuples, the same modal mark repeated / all different"""
    k = 0
    for n in (4, 5):
        for conds in itertools.product(OUTCOME_MENU, repeat=n):
            k += 1
            marks = [MODAL_SPELLINGS[(k + 6 * i) % 18] for i in range(n)] if k % 2 else [MODAL_SPELLINGS[k % 18]] * n
            parts = [(m, WS[(k + i) % 4], c, WS[(k + 2 * i) % 4]) for i, (m, c) in enumerate(zip(marks, conds))]
            if k % 3 == 0:
                parts.append((MODAL_SPELLINGS[(k * 7) % 18], None, None, None))
            yield parts


def text_of(parts):
    return "".join(ind + ("" if cond is None else w1 + cond + w2) for ind, w1, cond, w2 in parts)


def plan(tier, seed):
    b = BOUNDS[tier]
    items = []
    for c in range(b["cers"]):
        for p in range(8):
            items.append({"fam": "A", "cer": c, "part": p, "parts": 8})
        for p in range(16):
            items.append({"fam": "B", "cer": c, "part": p, "parts": 16, "ws_pairs": b["ws_pairs"]})
        for p in range(4):
            items.append({"fam": "C", "cer": c, "part": p, "parts": 4})
        for p in range(4):
            items.append({"fam": "D", "cer": c, "part": p, "parts": 4})
        for p in range(len(HISTORY_MENU)):
            items.append({"fam": "H", "cer": c, "first": p})
    return items


_I = None
_own_cache = {}


def worker_init():
    global _I
    from mc import impl

    impl.setup()
    _I = impl


def _env(cer):
    return _I.Env(rc=CERS[cer], fc=FC, hints=HINTS, packages=PACKAGES)


def _own(cond_text, cer):
    """the part's own evaluation: resolve its text alone, requirement_constraint_evaluation, format_constraint_evaluation"""
    key = (cond_text, cer)
    if key in _own_cache:
        return _own_cache[key]
    I = _I
    env = _env(cer)
    tree = I.run(I.parse_expression_including_unresolved_subexpressions(cond_text, resolve_packages=True), env)
    rc = I.run(I.requirement_constraint_evaluation(tree), _env(cer))
    fc = I.run(I.format_constraint_evaluation(rc.format_constraints_expression), _env(cer))
    res = {"tree": I.tree_to_tuple(tree), "ful": rc.requirement_constraints_fulfilled, "cond": rc.requirement_is_conditional,
           "hints": rc.hints, "fcx": rc.format_constraints_expression, "fc_ful": fc.format_constraints_fulfilled,
           "fc_msg": fc.error_message}
    _own_cache[key] = res
    return res


def check_case(parts, cer, history=()):
    if _I is None:
        worker_init()
    I = _I
    out = []
    s = text_of(parts)
    case = {"parts": [list(p) for p in parts], "cer": cer, "s": s, "history": list(history)}

    def v(kind, exp, obs, msg=""):
        out.append({"kind": kind, "case": case, "expected": exp, "observed": obs, "msg": msg or s})

    for h in history:  # hidden-state exploration: evaluate something else first, ignore its result
        try:
            t = I.run(I.parse_expression_including_unresolved_subexpressions(h, resolve_packages=True), _env(cer))
            I.run(I.evaluate_ahb_expression_tree(t), _env(cer))
        except BaseException as e:  # pylint:disable=broad-except
            if isinstance(e, (KeyboardInterrupt, SystemExit)):
                raise
    # (1) unresolved split: tokens as written
    r = I.try_call(I.parse_ahb_expression_to_single_requirement_indicator_expressions, s)
    if r[0] == "exc":
        v("ahb-parser-rejected", "a tree", r[1], f"{s!r} is a documented AHB expression form")
    else:
        toks = []

        def collect(t):
            if isinstance(t, tuple):
                if t and isinstance(t[0], str) and t[0].startswith("%"):
                    toks.append(t[1])
                else:
                    for c in t[1:]:
                        collect(c)

        collect(I.tree_to_tuple(r[1]))
        exp = []
        for ind, w1, cond, w2 in parts:
            exp.append(ind)
            if cond is not None:
                exp.append(w1 + cond + w2)
        if [" ".join(t.split()) for t in toks] != [" ".join(t.split()) for t in exp]:  # modulo whitespace
            v("split-tokens", exp, toks, "unresolved split differs from the written parts")
    # (2) resolved tree
    r = I.try_call(lambda: I.run(I.parse_expression_including_unresolved_subexpressions(s, resolve_packages=True), _env(cer)))
    if r[0] == "exc":
        v("resolver-rejected", "a tree", r[1], f"{s!r} is a documented AHB expression form")
        return out
    tree = r[1]
    tt = I.tree_to_tuple(tree)
    owns = [None if cond is None else _own(w1 + cond + w2, cer) for ind, w1, cond, w2 in parts]
    exp_children = []
    for (ind, w1, cond, w2), own in zip(parts, owns):
        is_modal = ind.upper() in R5.MODAL
        tokname = "%MODAL_MARK" if is_modal else "%PREFIX_OPERATOR"
        if cond is None:
            exp_children.append(("requirement_indicator", (tokname, ind)))
        else:
            exp_children.append(("single_requirement_indicator_expression", (tokname, ind), own["tree"]))
    exp_tree = ("ahb_expression",) + tuple(exp_children)
    if tt != exp_tree:
        v("split-tree", repr(exp_tree)[:400], repr(tt)[:400], "resolved tree differs from (indicator, own subtree) parts in written order")
    # (3) evaluation
    r = I.try_call(lambda: I.run(I.evaluate_ahb_expression_tree(tree), _env(cer)))
    if r[0] == "exc":
        v("evaluation-raised", "a result", r[1])
        return out
    res = r[1]
    fulfilled = [True if own is None else own["ful"] for own in owns]
    sel = R5.select([bool(f) for f in fulfilled])
    ind, w1, cond, w2 = parts[sel]
    norm = R5.MODAL.get(ind.upper()) or R5.PREFIX[ind.upper()]
    own = owns[sel] or {"ful": True, "cond": False, "hints": None, "fcx": None, "fc_ful": True, "fc_msg": None}
    rc = res.requirement_constraint_evaluation_result
    fc = res.format_constraint_evaluation_result
    obs = {"indicator": str(getattr(res.requirement_indicator, "value", res.requirement_indicator)),
           "ful": rc.requirement_constraints_fulfilled, "hints": rc.hints, "fcx": rc.format_constraints_expression,
           "fc_ful": fc.format_constraints_fulfilled, "fc_msg": fc.error_message}
    exp = {"indicator": norm, "ful": own["ful"], "hints": own["hints"], "fcx": own["fcx"], "fc_ful": own["fc_ful"],
           "fc_msg": own["fc_msg"]}
    if len(parts) == 1:
        obs["cond"] = rc.requirement_is_conditional
        exp["cond"] = own["cond"]
    if obs != exp:
        diff = sorted(k for k in exp if exp[k] != obs.get(k))
        v("selected-part/" + "+".join(diff), exp, obs, f"{s!r}: expected part #{sel} ({ind!r})")
    return out


def _do(r, parts, cer, history=()):
    vs = check_case(parts, cer, history)
    r.evaluations += 1
    r.states += 1
    r.transitions += 3 + len(history)
    r.traces += 1
    if len(parts) >= 2:
        r.nontrivial += 1
    for x in vs:
        r.violation(x["kind"], x["case"], x["expected"], x["observed"], x["msg"])
    r.sample({"s": text_of(parts), "cer": CERS[cer], "history": list(history)}, limit=2)


def _parts_of_menu_entry(s):
    """HISTORY_MENU entries as parts (via the reference splitter)"""
    sp = R5.strict_split(s)
    if sp is None:
        raise RuntimeError(f"harness error: {s!r} is not a strict AHB form")
    return [(text, None, None, None) if cond is None else (text, "", cond, "") for text, _n, _m, cond in sp]


def run_item(item):
    if _I is None:
        worker_init()
    r = Result()
    fam = item["fam"]
    if fam == "H":
        first = HISTORY_MENU[item["first"]]
        for second in HISTORY_MENU:
            _do(r, _parts_of_menu_entry(second), item["cer"], history=(first,))
        return r
    gen = {"A": _cases_A, "B": lambda: _cases_B(item.get("ws_pairs", 4)), "C": _cases_C, "D": _cases_D}[fam]()
    for i, parts in enumerate(gen):
        if i % item["parts"] != item["part"]:
            continue
        _do(r, parts, item["cer"])
    return r


def replay(case):
    parts = [tuple(p) for p in case["parts"]]
    return check_case(parts, case["cer"], tuple(case.get("history", ())))
