"""C07 — the collected format-constraint expression is well-formed and meaning-preserving (E1, R3, I1)."""
import itertools

from checks import _exprs as X
from mc.enum import asts as A
from mc.ref import condparse as R2
from mc.ref import reqeval as R3
from mc.runner import Result

ID = "C07"
TITLE = "Collected format-constraint expression is well-formed and meaning-preserving"
ENGINE = "e1-bounded-enumeration"

BOUNDS = {
    "quick": {"sizes": [[1, "all"], [2, "all"], [3, "all"], [4, "all"]], "deep": 1},
    "thorough": {"sizes": [[1, "all"], [2, "all"], [3, "all"], [4, "all"], [5, "distinct"]], "deep": 2},
}


def describe(tier):
    b = BOUNDS[tier]
    return {
        "rule": f"every valid in-domain expression AST with >= 1 format-constraint key and (leaves, labelling) in {b['sizes']}, plus FC-only "
                f"operator trees of 5-6 leaves nested as (compound) op (compound) under a third operator (family 'deep', level {b['deep']}), "
                f"plus (family 'long', deviation-bounded) chains [1][901] op [2][902] op ... of k in {LONG_K[tier]} attached pairs for the operator patterns {LONG_OPS} under the all-fulfilled assignment and every assignment with ONE unfulfilled resp. unknown key (full truth-table comparison with R3; the real format constraint evaluation under all-true / all-false / one deviating key); otherwise "
                "x ALL 3^k assignments to the requirement keys x ALL 2^f truth assignments to the format keys. Oracle: the returned "
                "format_constraints_expression is None or (i) accepted by the reference recogniser R2, (ii) built only from U/O/X, brackets "
                "and FC keys of the source, (iii) accepted by format_constraint_evaluation, (iv) its truth table (R2 parse + Boolean "
                "evaluation, and the real format_constraint_evaluation under harness FC answers) equals the table of the direct reading "
                "R3 - strict or lenient (I1); None <=> R3 yields 'absent'. Non-trivial = (expression, RC assignment) pairs whose "
                "expected expression has >= 2 FC keys.",
        "bounds": b,
        "exhaustive": True,
        "assumptions": ["I1: FCs nested below an attached FC whose operand is not FULFILLED may be kept or dropped (both tables accepted)"],
    }


def plan(tier, seed):
    items = []
    for n, lab in BOUNDS[tier]["sizes"]:
        parts = {1: 1, 2: 2, 3: 16, 4: 128, 5: 512}[n]
        for p in range(parts):
            items.append({"fam": "ast", "n": n, "lab": lab, "part": p, "parts": parts, "seed": seed})
    for k in LONG_K[tier]:
        for ops in range(len(LONG_OPS)):
            items.append({"fam": "long", "k": k, "ops": ops, "seed": seed})
    for p in range(27):
        items.append({"fam": "deep", "part": p, "seed": seed, "level": BOUNDS[tier]["deep"]})
    return items


def worker_init():
    X.init()


def _ref_ok_shape(ref, allowed):
    """only and/or/xor/br over cond leaves with keys from `allowed`"""
    k = ref[0]
    if k == "br":
        return _ref_ok_shape(ref[1], allowed)
    if k == "cond":
        return ref[1] in allowed
    if k in ("and", "or", "xor"):
        return all(_ref_ok_shape(x, allowed) for x in ref[1])
    return False


LONG_K = {"quick": [6, 9, 10, 11, 12], "thorough": [6, 7, 8, 9, 10, 11, 12, 13, 16]}
LONG_OPS = ["U", "O", "X", "UO", "OX", "XU", "(UO", "(OX", "(XU", "(UOX"]  # "(..." = LEFT-NESTED with explicit brackets: (((a op1 b) op2 c) op1 d) ...


def long_cases(k, ops):
    """chain  [1][901] op [2][902] op ... [k][900+k]  (operators alternate through `ops`); assignments: all fulfilled, and every
    assignment with exactly one key UNFULFILLED resp. UNKNOWN (deviation-bounded: 1 + 2k of the 3^k)"""
    pat = LONG_OPS[ops]
    expr = ""
    if pat.startswith("("):
        pat = pat[1:]
        expr = "[1][901]"
        for i in range(2, k + 1):
            expr = f"({expr} {pat[(i - 2) % len(pat)]} [{i}][{900 + i}])"
    else:
        for i in range(1, k + 1):
            expr += (f" {pat[(i - 2) % len(pat)]} " if i > 1 else "") + f"[{i}][{900 + i}]"
    keys = [str(i) for i in range(1, k + 1)]
    assigns = [{x: "F" for x in keys}]
    for dev in ("U", "?"):
        for x in keys:
            assigns.append({y: (dev if y == x else "F") for y in keys})
    return expr, assigns


def check_expr(expr, only_assign=None, real=True):
    I = X.init()
    out = []
    pr = X.parse(expr)
    if pr[0] == "exc":
        return [{"kind": "parse-failed", "case": {"expr": expr}, "expected": "tree", "observed": pr[1], "msg": expr}], 0, 0, 0
    _, T, tt = pr
    if not (R3.in_domain(tt) and R3.valid(tt)):
        raise RuntimeError(f"harness error: {expr!r} outside the domain")
    rckeys = R3.keys_of(tt, "rc")
    fckeys = R3.keys_of(tt, "fc")
    n = nontrivial = 0
    ambiguous = [0]
    real_cache = {}
    assigns = [only_assign] if only_assign is not None else X.assignments(rckeys)
    for a in assigns:
        case = {"expr": expr, "assign": a}
        strict = R3.fc_function(tt, a, lenient=False)
        lenient = R3.fc_function(tt, a, lenient=True)
        tables = {R3.truth_table(strict, fckeys), R3.truth_table(lenient, fckeys)}
        if len(tables) == 2:
            ambiguous[0] += 1
        r = X.eval_async(expr, tt, a)
        rt = X.eval_tree(T, tt, a)
        n += 2
        if strict is not None and len(R3.keys_of_bool(strict)) >= 2:
            nontrivial += 1
        if r[0] == "exc":
            out.append({"kind": "evaluation-raised", "case": case, "expected": "a result", "observed": r[1], "msg": expr})
            continue
        s = r[3]
        if rt[0] == "ok" and tt[0] != "condition" and rt[2] != s:
            out.append({"kind": "sync-async-differ", "case": case, "expected": rt[2], "observed": s, "msg": expr})
        if s is None:
            if None not in tables:
                out.append({"kind": "absent-but-expected", "case": case, "expected": repr(strict), "observed": None,
                            "msg": f"{expr} under {a}: no format constraint expression although format constraints take part"})
            continue
        if not isinstance(s, str) or s.strip() == "":
            out.append({"kind": "not-a-nonempty-string", "case": case, "expected": "None or expression", "observed": repr(s), "msg": expr})
            continue
        try:
            ref = R2.parse(s)
        except R2.Reject as e:
            out.append({"kind": "not-well-formed", "case": case, "expected": "well-formed expression", "observed": s, "msg": str(e)})
            continue
        if not _ref_ok_shape(ref, set(fckeys)):
            out.append({"kind": "foreign-material", "case": case, "expected": f"only U/O/X, brackets and keys {fckeys}", "observed": s,
                        "msg": expr})
            continue
        table = tuple(R2.to_bool(ref, dict(zip(fckeys, vals))) for vals in itertools.product((False, True), repeat=len(fckeys)))
        if table not in tables:
            out.append({"kind": "meaning-changed", "case": case, "expected": [repr(strict), repr(lenient)], "observed": s,
                        "msg": f"{expr} under {a}: truth table of {s!r} differs from the direct reading"})
            continue
        # (iii)+(iv) through the real format constraint evaluation, once per distinct returned string
        if not real and len(fckeys) > 6:
            # long chains: the real evaluation under all-true, all-false and every valuation with one deviating key
            rows_ok = True
            for base_val in (True, False):
                for dev in [None] + list(fckeys):
                    val = {k: (base_val if k != dev else not base_val) for k in fckeys}
                    fr = X.eval_fc(s, val)
                    n += 1
                    want = R2.to_bool(ref, val)
                    if fr[0] != "ok" or fr[1] is not want:
                        rows_ok = False
                        out.append({"kind": "format-evaluation-disagrees", "case": case, "expected": want, "observed": fr[1],
                                    "msg": f"format_constraint_evaluation({s!r}) under {val}"})
                        break
                if not rows_ok:
                    break
            continue
        if s not in real_cache:
            rows = []
            for vals in itertools.product((False, True), repeat=len(fckeys)):
                fr = X.eval_fc(s, dict(zip(fckeys, vals)))
                rows.append(fr[1] if fr[0] == "ok" else "exc:" + fr[1])
            real_cache[s] = tuple(rows)
            n += len(rows)
        if real_cache[s] != table:
            out.append({"kind": "format-evaluation-disagrees", "case": case, "expected": list(table), "observed": list(real_cache[s]),
                        "msg": f"format_constraint_evaluation({s!r})"})
    return out, n, nontrivial, ambiguous[0]


def _deep_exprs(part, level, pools):
    """FC-only operator trees  (a o1 b) o2 (c o1' d)  [o3 e]  attached to nothing; these exercise the string builder's
    bracketing at nesting depth 3 - plus the same with an RC and-ed on / with the FCs attached to fulfilled RCs"""
    ops = ("and", "or", "xor")
    fc = [("fc", k) for k in pools["fc"]]
    combos = list(itertools.product(ops, repeat=3))
    o1, o2, o3 = combos[part]
    for o4 in ops:
        core = (o2, (o1, fc[0], fc[1]), (o3, fc[2], fc[3]))
        yield (o4, fc[4], core)
        yield (o4, core, fc[4])
        if level >= 2:
            for o5 in ops:
                yield (o5, (o4, fc[4], core), fc[5])
                yield (o5, fc[5], (o4, core, fc[4]))
        # attached forms: every FC hangs on its own fulfilled/unknown RC
        rcs = [("rc", k) for k in pools["rc"]]
        att = (o2, (o1, ("then", rcs[0], fc[0]), ("then", rcs[1], fc[1])), (o3, ("then", fc[2], rcs[2]), ("then", rcs[3], fc[3])))
        yield att
        yield (o4, ("then", rcs[4], fc[4]), att)


def run_item(item):
    X.init()
    r = Result()
    pools = X.pools(item["seed"])
    if item["fam"] == "long":
        expr, assigns = long_cases(item["k"], item["ops"])
        for a in assigns:
            vs, n, nt, amb = check_expr(expr, a, real=False)
            r.stat("ambiguous_I1_pairs", amb)
            r.stat("long_chain_assignments")
            r.evaluations += n
            r.states += n
            r.transitions += n
            r.nontrivial += nt
            for v in vs:
                v["case"]["long"] = True
                r.violation(v["kind"], v["case"], v["expected"], v["observed"], v["msg"])
        r.traces += 1
        r.sample({"expr": expr, "assignments": len(assigns)})
        return r
    if item["fam"] == "deep":
        todo = [X.render(t, item["seed"]) for t in _deep_exprs(item["part"], item["level"], pools) if A.is_valid(t)]
    else:
        todo = []
        i = -1
        for ast in A.asts(item["n"], item["lab"], pools={k: v[:5] for k, v in pools.items()}):
            if not A.is_valid(ast) or not A.keys_of(ast, "fc"):
                continue
            i += 1
            if i % item["parts"] != item["part"]:
                continue
            todo.append(X.render(ast, item["seed"]))
    for expr in todo:
        vs, n, nt, amb = check_expr(expr)
        r.stat("ambiguous_I1_pairs", amb)
        r.evaluations += n
        r.states += n
        r.transitions += n
        r.traces += 1
        r.nontrivial += nt
        r.stat("expressions")
        for v in vs:
            r.violation(v["kind"], v["case"], v["expected"], v["observed"], v["msg"])
        r.sample({"expr": expr, "executions": n})
    return r


def replay(case):
    return check_expr(case["expr"], case.get("assign"), real=not case.get("long"))[0]
