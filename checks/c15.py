"""C15 — each data element's format constraints see only that element's own input (E3: virtual event loop)."""
import json

from checks import c12
from mc import vloop
from mc.runner import Result

ID = "C15"
TITLE = "Each data element's format constraints see only that element's own input"
ENGINE = "e3-vloop-schedules"

BOUNDS = {"quick": {"early": 0, "three_bound": 2}, "thorough": {"early": 1, "three_bound": None}}

# AHB layouts: list of (group id, segment id, element id) paths; elements with the same (group, segment) share a segment
LAYOUTS = {
    "same-segment-2": [("G0", "S0"), ("G0", "S0")],
    "two-segments-2": [("G0", "S0"), ("G0", "S1")],
    "two-groups-2": [("G0", "S0"), ("G1", "S0")],
    "nested-group-2": [("G0", "S0"), ("G0/G0", "S0")],
    "mixed-3": [("G0", "S0"), ("G0", "S0"), ("G1", "S0")],
    "three-segments-3": [("G0", "S0"), ("G0", "S1"), ("G0/G0", "S0")],
    "same-segment-2-same-discriminator": [("G0", "S0"), ("G0", "S0")],  # discriminators need not be unique (Optional[str])
}
INPUT_SETS = [["good", "bad"], ["bad", "good"], [None, "good"], ["good", None], ["", "good"], ["bad", "worse"],
              # the same instant in two notations / two instants (for the shipped constraints 932.. of expression set 3)
              ["2022-01-01T12:00:00+00:00", "2022-01-01T14:00:00+02:00"], ["2021-12-31T23:00:00+00:00", "2022-01-01T00:00:00+01:00"],
              # inputs that differ only in surrounding whitespace
              ["good", "good "], [" good", "good"]]
INPUT_SETS3 = [["good", "bad", None], ["bad", None, "good"], [None, "good", "bad"], ["good", "bad", "bad"], ["bad", "good", "good"],
               ["bad", "good", "bad"]]
EXPR_SETS = [["Muss [1][950]", "Muss [1][950]", "Muss [1][950]"],  # identical expressions (shared FC key and FC expression)
             ["Muss [4P][950]", "Muss [1][950]", "Soll [1][950]"],  # the first one sits behind a package (a yield BEFORE the set)
             ["Muss [1][950]", "Muss [4P][950] U [951]", "Kann [1][950]"],
             ["Muss [1][932]", "Muss [1][UB1]", "Muss [1][933]"],  # shipped date-time constraints (same code for every element)
             ["Muss [5P]", "Muss [1][ 950 ]", "Soll [5P] U [951]"],  # the format constraint only arrives through a package / a spaced key
             # date-time inputs (elements may be typed DATETIME) judged by a spelling-sensitive shipped constraint (931) and a custom one
             ["Muss [1][950]", "Muss [1][931]", "Muss [1][950] U [931]"]]


def describe(tier):
    b = BOUNDS[tier]
    return {
        "rule": f"AHBs with 2-3 free-text data elements in {len(LAYOUTS)} layouts (same segment, two segments, two groups, nested group) carrying "
                f"different entered inputs ({len(INPUT_SETS)} input pairs / {len(INPUT_SETS3)} triples incl. None and '') and format constraints "
                "that share one FC key; the FC evaluator answers fulfilled=(text=='good') and echoes the text it was given; RC, FC and "
                "package evaluators all suspend (in a subset of the cases the shared constraint is answered by a PLAIN evaluate method instead); one element sits behind a package (a yield BEFORE the ContextVar is set); every layout is "
                "also run in an ambient context in which the ContextVar already holds a foreign text; three layouts are also run as TWO validations of two AHBs (other inputs) "
                "started concurrently as tasks in one loop, each judged like a single validation. ALL completion orders of the pending "
                f"awaitables are enumerated on the virtual event loop for 2 elements (3 elements: "
                f"{'all orders' if b['three_bound'] is None else '<= %d deviations from oldest-first' % b['three_bound']}), plus <= {b['early']} "
                "early/batched completion. Oracle: for every schedule the result list equals the zero-yield baseline; each free-text "
                "element's result equals validate_data_element_freetext run ALONE with the same parent status; the echoed text is the "
                "element's own entered input. Non-trivial = schedules deviating from oldest-first completion.",
        "bounds": b,
        "exhaustive": True,
        "assumptions": ["the only scheduling nondeterminism is the completion order / iteration of user-supplied awaitables"],
    }


def plan(tier, seed):
    b = BOUNDS[tier]
    items = []
    for lname, paths in LAYOUTS.items():
        n = len(paths)
        for ei in range(len(EXPR_SETS)):
            for ii, inp in enumerate(INPUT_SETS if n == 2 else INPUT_SETS3):
                is_date = bool(inp[0]) and inp[0][:2] == "20"
                if (ei in (3, 5)) != is_date:
                    continue
                for ambient in (None, "good"):
                    if ambient and ii % 2:
                        continue
                    items.append({"layout": lname, "exprs": ei, "inputs": ii, "ambient": ambient, "early": b["early"],
                                  "order_bound": None if n == 2 else b["three_bound"]})
                    if ambient is None and ei in (0, 2, 4) and ii % 3 == 0:
                        items.append(dict(items[-1], sync_fc=True))
    # TWO validations of two AHBs running concurrently in one event loop (a server handling two messages), each started as a task
    for lname in ("same-segment-2", "two-segments-2", "nested-group-2"):
        for ei in (0, 1, 4):
            for ii in (0, 2, 5, 8):
                items.append({"layout": lname, "exprs": ei, "inputs": ii, "ambient": None, "early": 0, "order_bound": 2 if tier == "quick" else 3,
                              "concurrent_with": (ii + 1) % len(INPUT_SETS[:6])})
    return items


_I = None
_V = None


def worker_init():
    global _I, _V
    c12.worker_init()
    from mc import impl, impl_validation

    _I = impl
    _V = impl_validation


def _model(item):
    paths = LAYOUTS[item["layout"]]
    n = len(paths)
    inputs = (INPUT_SETS if n == 2 else INPUT_SETS3)[item["inputs"]]
    exprs = EXPR_SETS[item["exprs"]]
    groups = {}
    top = []
    elems = []
    for k, (gpath, sid) in enumerate(paths):
        parent = None
        gid = ""
        for part in gpath.split("/"):
            gid = part if not gid else gid + "." + part
            if gid not in groups:
                g = {"kind": "group", "id": gid, "expr": "Muss", "groups": [], "segments": []}
                groups[gid] = g
                (parent["groups"] if parent else top).append(g)
            parent = groups[gid]
        seg = next((s for s in parent["segments"] if s["id"] == gid + "." + sid), None)
        if seg is None:
            seg = {"kind": "segment", "id": gid + "." + sid, "expr": "Muss", "elements": []}
            parent["segments"].append(seg)
        eid = f"{seg['id']}.D" if item["layout"].endswith("same-discriminator") else f"{seg['id']}.D{len(seg['elements'])}"
        el = {"kind": "free", "id": eid, "expr": exprs[k], "input": inputs[k]}
        seg["elements"].append(el)
        elems.append(el)
    return top, elems


def _fc_answer(text):
    return (text == "good", None if text == "good" else f"echo:{text!r}")


def _factory(item, zero, solo=None):
    top, elems = _model(item)

    def factory(sched):
        # "sync_fc": constraint 950 is answered by a PLAIN evaluate method (which, like every harness method, reads its answers
        # from context-local storage), the others by coroutine methods
        env = c12._env(sched, rc={"1": "F"}, fc={"950": _fc_answer, "951": (True, None)}, packages={"4P": "[1]", "5P": "[1][950]"},
                       yields={"*": 0} if zero else None, sync={("fc", "950")} if item.get("sync_fc") else ())

        async def go():
            if item["ambient"] is not None:
                # a caller who evaluated something outside the validation framework before (documented manual set)
                _I.text_to_be_evaluated_by_format_constraint.set(item["ambient"])
            if solo is not None:
                el = _V.build_element(elems[solo])
                return _V.observe([await _V.validate_data_element_freetext(el, _V.STATUS["IS_REQUIRED"])])
            ahb = _V.build_ahb(top)
            if item.get("concurrent_with") is not None and solo is None:
                import asyncio
                import contextvars

                other_top, _ = _model(dict(item, inputs=item["concurrent_with"]))
                loop = asyncio.get_running_loop()
                tasks = [loop.create_task(_V.validate_deep_anwendungshandbuch(a), context=contextvars.copy_context())
                         for a in (ahb, _V.build_ahb(other_top))]
                both = await asyncio.gather(*tasks)
                return {"first": _V.observe(both[0]), "second": _V.observe(both[1])}
            return _V.observe(await _V.validate_deep_anwendungshandbuch(ahb))

        return c12._with_env(env, go)

    return factory


def _observe(ex):
    if ex.exception is not None:
        return json.dumps(["exception", type(ex.exception).__name__])
    return json.dumps(ex.result, ensure_ascii=False, default=repr)


def _oracle(item, observed_json):
    """violations of one observed result list against the solo runs + echo rule"""
    out = []
    obs = json.loads(observed_json)
    if isinstance(obs, dict):
        # two concurrent validations: each result list is judged like a single validation of its own AHB
        a = _oracle(dict(item, concurrent_with=None), json.dumps(obs["first"]))
        b = _oracle(dict(item, concurrent_with=None, inputs=item["concurrent_with"]), json.dumps(obs["second"]))
        return [(k + "/concurrent-validations", e, o) for k, e, o in a + b]
    if obs and obs[0] == "exception":
        return [("validation-raised", "a result list", obs[1])]
    top, elems = _model(item)
    from mc.ref import validation as R7

    order = [n for n in R7.nodes(top)]  # document order = order of the result list (C13)
    if [n["id"] for n in order] != [o["id"] for o in obs]:
        return [("element-missing", [n["id"] for n in order], [o["id"] for o in obs])]
    builtin = item["exprs"] == 3
    for k, el in enumerate(elems):
        o = obs[[i for i, n in enumerate(order) if n is el][0]]
        if item["exprs"] == 5:
            # what each constraint was given is the element's own ENTERED input, in the spelling in which it was entered
            from datetime import datetime, timedelta

            others = [e["input"] for e in elems if e is not el and e["input"] and e["input"] != el["input"]]
            zero = datetime.fromisoformat(el["input"]).utcoffset() == timedelta(0)
            uses950, uses931 = "[950]" in el["expr"], "[931]" in el["expr"]
            want_ful = (not uses950) and (zero if uses931 else True)
            msg = o["format_msg"] or ""
            bad = o["format"] is not want_ful or any(x in msg for x in others) or (uses950 and f"echo:{el['input']!r}" not in msg)
            if bad:
                out.append(("foreign-input-seen", {"id": el["id"], "own_input": el["input"], "format": want_ful,
                                                   "message_quotes": el["input"] if uses950 else None},
                            {"id": el["id"], "format": o["format"], "format_msg": o["format_msg"]}))
            continue
        if builtin:
            # the shipped constraints quote their own input in the message: a foreign notation must not show up
            others = [e["input"] for e in elems if e is not el and e["input"] and e["input"] != el["input"]]
            leaked = [x for x in others if o["format_msg"] and x in o["format_msg"]]
            if leaked:
                out.append(("foreign-input-seen", {"id": el["id"], "own_input": el["input"]}, {"id": el["id"], "format_msg": o["format_msg"]}))
                continue
            # ... and the verdict is the one for the element's OWN instant (reference R9: German midnight)
            from datetime import datetime

            from mc.ref import berlin as B

            want = B.german_second_of_day(int(datetime.fromisoformat(el["input"]).timestamp())) == 0
            if o["format"] is not want:
                out.append(("foreign-input-seen", {"id": el["id"], "own_input": el["input"], "format": want},
                            {"id": el["id"], "format": o["format"], "format_msg": o["format_msg"]}))
                continue
        exp_ful, exp_msg = _fc_answer(el["input"])
        if not builtin and (o["format"] is not exp_ful or o["format_msg"] != exp_msg):
            out.append(("foreign-input-seen", {"id": el["id"], "own_input": el["input"], "format": exp_ful, "format_msg": exp_msg},
                        {"id": el["id"], "format": o["format"], "format_msg": o["format_msg"]}))
            continue
        solo = vloop.run_schedule(_factory(dict(item, ambient=None), True, solo=k), [])
        s = json.loads(_observe(solo))
        if s and s[0] != "exception" and s[0] != o:
            out.append(("differs-from-solo-validation", s[0], o))
    return out


def run_item(item):
    worker_init()
    r = Result()
    base_ex = vloop.run_schedule(_factory(item, True), [])
    base = _observe(base_ex)
    exp = vloop.explore(_factory(item, False), _observe, order_bound=item["order_bound"], early_bound=item["early"])
    r.evaluations = exp.schedules
    r.states = exp.decision_points
    r.transitions = exp.decision_points
    r.traces = exp.schedules
    r.nontrivial = max(0, len(exp.completion_traces) - 1)
    r.stat("schedules", exp.schedules)
    r.stat("choice_points", exp.choice_points)
    r.stat("distinct_completion_traces", len(exp.completion_traces))
    r.outcomes.add((item["layout"], item["exprs"], item["inputs"], item["ambient"], item.get("concurrent_with"), len(exp.outcomes)))
    for out in set(exp.outcomes) | {base}:
        choices = exp.first_schedule_of_outcome.get(out, [])
        case = {"item": item, "choices": choices, "zero_yield": out not in exp.outcomes}
        for kind, e, o in _oracle(item, out):
            r.violation(kind, case, e, o, f"layout {item['layout']} exprs {EXPR_SETS[item['exprs']]} ambient={item['ambient']!r}")
        if out != base:
            r.violation("depends-on-completion-order", case, json.loads(base), json.loads(out),
                        f"{exp.outcomes.get(out)} of {exp.schedules} schedules differ from the zero-yield baseline")
    r.sample({"layout": item["layout"], "exprs": EXPR_SETS[item["exprs"]][:len(LAYOUTS[item['layout']])], "schedules": exp.schedules,
              "ambient": item["ambient"], "example_trace": sorted(exp.completion_traces)[-1][:10]})
    return r


def replay(case):
    worker_init()
    item = case["item"]
    base = _observe(vloop.run_schedule(_factory(item, True), []))
    if case.get("zero_yield"):
        out = base
    else:
        out = _observe(vloop.run_schedule(_factory(item, False), case["choices"]))
    vs = [{"kind": k, "case": case, "expected": e, "observed": o} for k, e, o in _oracle(item, out)]
    if out != base:
        vs.append({"kind": "depends-on-completion-order", "case": case, "expected": json.loads(base), "observed": json.loads(out)})
    return vs
