"""C13 — validation covers the AHB tree once, in order; parents dominate children (E1, R7)."""
import itertools

from checks import _ahb as H
from mc.enum import ahbtrees as T
from mc.runner import Result

ID = "C13"
TITLE = "Validation covers the AHB tree once, in order; parents dominate children"
ENGINE = "e1-bounded-enumeration"

BOUNDS = {"quick": {"full4": 4, "full3": 5, "cers_chain": 3, "rich": 1}, "thorough": {"full4": 6, "full3": 6, "cers_chain": 6, "rich": 3}}
CHAIN_SHAPE = (("G", (("G", (), (("S", ("F",)),)),), ()),)  # group -> group -> segment -> free text
RICH_SHAPE = (("G", (("G", (), (("S", ("F", "P")),)),), (("S", ("F",)),)), ("G", (), (("S", ("F",)),)))  # 10 nodes


def describe(tier):
    b = BOUNDS[tier]
    return {
        "rule": "(a) local transition coverage: every 4-long label sequence from an 8-expression menu (MUSS/SOLL/KANN/X x "
                "fulfilled/unfulfilled/undetermined) on the chain group->group->segment->free text x both soll flags x "
                f"{b['cers_chain']} content evaluation results; (b) small-scope trees: EVERY AHB tree shape (1-2 top-level groups, nesting <= 3, "
                f"<= 2 children per kind, free-text and value-pool elements) with <= {b['full4']} nodes x EVERY labelling from the 4-class "
                f"menu {H.CLASSES4} and with <= {b['full3']} nodes x every labelling from {H.CLASSES3}, x both flags, entered inputs "
                "rotating over {None, '', 'x'}; (b2) the same with siblings sharing a discriminator and data elements WITHOUT discriminator; (b3) a node whose expression cannot be evaluated (unknown package) at every "
                "position of the chain below every labelling of its ancestors, and in a single-entry pool: NotImplementedError iff the node is visited; (c) a fixed 10-node tree labelled with expressions containing packages, hints, format "
                "constraints, several modal marks (every pair of a 12-entry menu at every pair of positions is not enumerated: each menu "
                "entry at each position). Oracle R7: discriminators in document order, exactly once, nothing below a forbidden node; the "
                "status of every segment-level node and free-text element per the two documented tables incl. FILLED/EMPTY suffix; "
                "NotImplementedError iff a VISITED MUSS/prefix node is undetermined. The node's own evaluation comes from evaluating its "
                "expression alone with the real evaluate_ahb_expression_tree. Also through validate_segment_level with a segment group and with a segment as root, and through validate_segment_group / "
                "validate_segment called DIRECTLY with each documented parent status (none, required, optional) for all chain labellings. (d) E3: "
                f"{len(ORD_SHAPES)} shapes with siblings x {2 * len(ORD_MENU)} labellings with SUSPENDING requirement / format / hint evaluators under all completion orders "
                "(quick: <= 2 deviations from oldest-first) on the virtual event loop: every schedule's result list equals the zero-yield run and R7. Non-trivial = trees with "
                ">= 3 nodes.",
        "bounds": b,
        "exhaustive": True,
        "assumptions": ["value-pool elements are only checked for position/exactly-once here (their status is C17's)"],
    }


def plan(tier, seed):
    b = BOUNDS[tier]
    items = []
    for cer in range(b["cers_chain"]):
        for first in range(len(H.CHAIN_MENU)):
            items.append({"fam": "chain", "cer": cer, "first": first})
    shapes4 = [s for s in T.shapes(b["full4"])]
    shapes3 = [s for s in T.shapes(b["full3"], b["full4"] + 1)]
    for fam, shapes, ncls in (("tree4", shapes4, 4), ("tree3", shapes3, 3)):
        for si, s in enumerate(shapes):
            n = T.count_nodes(s)
            total = ncls ** n
            chunks = max(1, total // 1024)
            for c in range(chunks):
                items.append({"fam": fam, "shape": si, "lo": c * total // chunks, "hi": (c + 1) * total // chunks,
                              "nmax": b["full4"] if fam == "tree4" else b["full3"], "nmin": 1 if fam == "tree4" else b["full4"] + 1})
    for cer in range(b["rich"]):
        for pos in range(10):
            items.append({"fam": "rich", "cer": cer, "pos": pos})
    # siblings that share a discriminator (legal: three DTM segments, two SG12 groups): every shape with <= 5 nodes
    for si in range(len(list(T.shapes(5 if tier == "quick" else 6, 2)))):
        items.append({"fam": "samenames", "shape": si, "nmax": 5 if tier == "quick" else 6})
    # expressions that cannot be evaluated (a package the resolver does not know) on nodes that are / are not visited
    items.append({"fam": "unvisited"})
    # the segment-group / segment validators called directly with the parent status a caller hands in
    for first in range(len(H.CHAIN_MENU)):
        items.append({"fam": "direct", "first": first, "cer": first % b["cers_chain"]})
    # suspending evaluators: all completion orders (bounded for the larger shapes)
    for si in range(len(ORD_SHAPES)):
        for rot in range(len(ORD_MENU)):
            for step in (1, 5):
                items.append({"fam": "orders", "shape": si, "rot": rot, "step": step, "soll": (rot + step) % 2 == 0,
                              "order_bound": None if si < 4 and tier != "quick" else (2 if tier == "quick" else 4)})
    # wide nodes (deviation-bounded labelling): k top-level groups / k sub groups + m segments / k data elements
    for k in (3, 5, 8, 9, 11, 17):
        items.append({"fam": "wide", "k": k})
    return items


# E3 family: suspending evaluators, all completion orders (virtual event loop) for trees with siblings
ORD_SHAPES = [
    (("G", (), ()), ("G", (), ())),                                   # two top-level groups
    (("G", (), (("S", ()), ("S", ()))),),                             # a group with two segments
    (("G", (("G", (), ()),), (("S", ("F",)),)),),                    # sub group + segment with a free-text element
    (("G", (), (("S", ("F", "F")),)),),                              # a segment with two free-text elements
    (("G", (), (("S", ("F",)), ("S", ("P",)))), ("G", (), ())),      # 6 nodes: two groups, two segments, two elements
]
ORD_MENU = ["Muss [1]", "Soll [2] U [501]", "Kann [1][901]", "Muss [2]", "X [1] U [502]", "Muss [3]"]


def _orders_setup(item):
    import json

    from checks import c12
    from mc import vloop

    H.init()
    c12.worker_init()
    shape = ORD_SHAPES[item["shape"]]
    n = T.count_nodes(shape)
    exprs = [ORD_MENU[(i * item["step"] + item["rot"]) % len(ORD_MENU)] for i in range(n)]
    groups = H.model_from(shape, exprs, item["rot"])
    rc = dict(zip(("1", "2", "3"), H.PERMS[0]))

    def factory_for(zero):
        def factory(sched):
            env = c12._env(sched, rc=rc, fc=dict(H.FC), hints=dict(H.HINTS), packages=dict(H.PACKAGES), yields={"*": 0} if zero else None)

            async def go():
                return H.V.observe(await H.V.validate_deep_anwendungshandbuch(H.V.build_ahb(groups), item["soll"]))

            return c12._with_env(env, go)

        return factory

    def observe(ex):
        if ex.exception is not None:
            return json.dumps(["exc", type(ex.exception).__name__])
        return json.dumps(["ok", ex.result], ensure_ascii=False, default=repr)

    return vloop, factory_for, observe, groups, exprs


def _orders_violations(item, groups, out_json, base_json):
    import json

    got = json.loads(out_json)
    vs = []
    diff = H.compare(groups, 0, item["soll"], tuple(got))
    if diff is not None:
        vs.append((diff[0] + "/completion-order", diff[1], diff[2]))
    if out_json != base_json:
        vs.append(("depends-on-completion-order", json.loads(base_json), got))
    return vs


def worker_init():
    H.init()


def _rename_same(groups):
    """every node gets the name of its kind only: siblings share their discriminator"""
    from mc.ref import validation as R7

    for n in R7.nodes(groups):
        # data elements may have NO discriminator at all (Optional field: "not found in the MIG")
        n["id"] = {"group": "SG12", "segment": "DTM", "free": None, "pool": None}[n["kind"]]
    return groups


def check_case(shape, exprs, cer, soll, entry="deep", variant=0, same_names=False, parent=None, single_entry=None):
    H.init()
    groups = H.model_from(shape, exprs, variant)
    if single_entry:
        from mc.ref import validation as R7

        for n in R7.nodes(groups):
            if n["kind"] == "pool":
                n["entries"] = [{"q": "A", "expr": single_entry}]
                n["input"] = "A"
    if same_names:
        groups = _rename_same(groups)
    use = groups
    if entry == "segment_level":
        use = groups[:1]
    elif entry == "segment_root":
        from mc.ref import validation as R7

        segs = [n for n in R7.nodes(groups) if n["kind"] == "segment"]
        if not segs:
            return []
        use = segs[:1]
    if entry == "group_direct":
        use = groups[:1]
    elif entry == "segment_direct":
        use = [groups[0]["segments"][0]]
    got = H.V.run_validation(use if entry != "segment_direct" else groups, H.env(cer), soll, entry=entry, parent=parent)
    diff = H.compare(use, cer, soll, got, parent=parent)
    if diff is None:
        return []
    kind, exp, obs = diff
    return [{"kind": kind, "case": {"shape": shape, "exprs": list(exprs), "cer": cer, "soll_is_required": soll, "entry": entry,
                                    "variant": variant, "same_names": same_names, "parent": parent, "single_entry": single_entry},
             "expected": exp, "observed": obs, "msg": f"exprs={list(exprs)} soll_is_required={soll}"}]


def _acc(r, vs, n_nodes, sample):
    r.evaluations += 1
    r.states += 1
    r.transitions += 1
    r.traces += 1
    if n_nodes >= 3:
        r.nontrivial += 1
    for v in vs:
        r.violation(v["kind"], v["case"], v["expected"], v["observed"], v["msg"])
    r.sample(sample, limit=2)


def run_item(item):
    H.init()
    r = Result()
    fam = item["fam"]
    if fam == "orders":
        vloop, factory_for, observe, groups, exprs = _orders_setup(item)
        base = observe(vloop.run_schedule(factory_for(True), []))
        exp = vloop.explore(factory_for(False), observe, order_bound=item["order_bound"], early_bound=0)
        r.evaluations += exp.schedules
        r.states += exp.decision_points
        r.transitions += exp.decision_points
        r.traces += exp.schedules
        r.nontrivial += max(0, len(exp.completion_traces) - 1)
        r.stat("schedules", exp.schedules)
        for out in set(exp.outcomes) | {base}:
            case = {"orders": item, "choices": exp.first_schedule_of_outcome.get(out, []), "zero_yield": out not in exp.outcomes}
            for kind, e, o in _orders_violations(item, groups, out, base):
                r.violation(kind, case, e, o, f"exprs={exprs} soll_is_required={item['soll']}")
        r.sample({"orders": item, "exprs": exprs, "schedules": exp.schedules})
        return r
    if fam == "chain":
        for rest in itertools.product(H.CHAIN_MENU, repeat=3):
            exprs = (H.CHAIN_MENU[item["first"]],) + rest
            for soll in (True, False):
                _acc(r, check_case(CHAIN_SHAPE, exprs, item["cer"], soll), 4, {"chain": list(exprs), "soll": soll})
            _acc(r, check_case(CHAIN_SHAPE, exprs, item["cer"], True, entry="segment_level"), 4, {"chain": list(exprs), "entry": "segment_level"})
            if exprs[:2] == (H.CHAIN_MENU[0], H.CHAIN_MENU[0]):
                for soll in (True, False):
                    _acc(r, check_case(CHAIN_SHAPE, exprs, item["cer"], soll, entry="segment_root"), 2, {"chain": list(exprs), "entry": "segment_root"})
    elif fam == "unvisited":
        pool_shape = (("G", (), (("S", ("P", "F")),)),)
        for p in (1, 2, 3):
            for above in itertools.product(["Muss [1]", "Muss [2]", "Kann [1]", "Soll [2]"], repeat=p):
                exprs = list(above) + ["Muss [9P]"] + ["Muss [1]"] * (3 - p)
                for soll in (True, False):
                    _acc(r, check_case(CHAIN_SHAPE, tuple(exprs), 0, soll), 4, {"chain": exprs, "unknown_package_at": p})
                    _acc(r, check_case(CHAIN_SHAPE, tuple(exprs), 0, soll, entry="segment_level"), 4, {"chain": exprs, "entry": "segment_level"})
        # a single-entry pool offers its entry without evaluating it: an unknown package there is never looked at
        for seg_expr in ("Muss [1]", "Muss [2]", "Kann [1]"):
            for variant in (0, 1, 2):
                _acc(r, check_case(pool_shape, ("Muss [1]", seg_expr, "X [9P]", "Muss [1]"), 0, True, variant=variant, single_entry="X [9P]"), 4,
                     {"pool": "single entry with an unknown package", "segment": seg_expr})
    elif fam == "direct":
        seg_shape = (("G", (), (("S", ("F", "P")),)),)
        for rest in itertools.product(H.CHAIN_MENU, repeat=3):
            exprs = (H.CHAIN_MENU[item["first"]],) + rest
            for parent in ("IS_REQUIRED", "IS_OPTIONAL", None):
                for soll in (True, False):
                    _acc(r, check_case(CHAIN_SHAPE, exprs, item["cer"], soll, entry="group_direct", parent=parent), 4,
                         {"chain": list(exprs), "entry": "group_direct", "parent": parent})
                    if rest[2] == H.CHAIN_MENU[0]:
                        _acc(r, check_case(seg_shape, ("Muss",) + exprs[:3], item["cer"], soll, entry="segment_direct", parent=parent, variant=1), 3,
                             {"segment": list(exprs[:3]), "entry": "segment_direct", "parent": parent})
    elif fam in ("tree4", "tree3"):
        shape = [s for s in T.shapes(item["nmax"], item["nmin"])][item["shape"]]
        n = T.count_nodes(shape)
        menu = H.CLASSES4 if fam == "tree4" else H.CLASSES3
        for k, exprs in enumerate(itertools.product(menu, repeat=n)):
            if not item["lo"] <= k < item["hi"]:
                continue
            for soll in (True, False):
                _acc(r, check_case(shape, exprs, 0, soll, variant=k % 3), n, {"shape": repr(shape), "exprs": list(exprs), "soll": soll})
            if k % 4 == 0:
                _acc(r, check_case(shape, exprs, 0, k % 8 == 0, entry="segment_root", variant=k % 3), n, {"shape": repr(shape), "entry": "segment_root"})
    elif fam == "samenames":
        shape = [s for s in T.shapes(item["nmax"], 2)][item["shape"]]
        n = T.count_nodes(shape)
        for k, exprs in enumerate(itertools.product(H.CLASSES3, repeat=n)):
            _acc(r, check_case(shape, exprs, 0, k % 2 == 0, variant=k % 3, same_names=True), n, {"shape": repr(shape), "same_names": True})
    elif fam == "wide":
        k = item["k"]
        wide_shapes = [tuple(("G", (), ()) for _ in range(k)),                                      # k top-level groups
                       (("G", tuple(("G", (), ()) for _ in range(k // 2)), tuple(("S", ()) for _ in range(k - k // 2))),),  # mixed children
                       (("G", (), tuple(("S", ("F",)) for _ in range(k))),),                          # k segments with an element
                       (("G", (), (("S", tuple("FP"[i % 2] for i in range(k))),)),)]                 # k data elements
        for shape in wide_shapes:
            n = T.count_nodes(shape)
            labellings = [["Muss [1]"] * n]
            for i in range(n):
                for other in ("Muss [2]", "Kann [1]", "Soll [1]"):
                    lab = ["Muss [1]"] * n
                    lab[i] = other
                    labellings.append(lab)
            for li, exprs in enumerate(labellings):
                for soll in (True, False):
                    _acc(r, check_case(shape, exprs, 0, soll, variant=li % 3), n, {"wide": k, "exprs": exprs[:4]})
    elif fam == "rich":
        base = ["Muss [1]", "Muss", "Kann [1]", "Soll [1]", "X", "Muss [1]", "Muss [1]", "Muss", "Soll [1]", "Muss"]
        for m in H.RICH_MENU:
            exprs = list(base)
            exprs[item["pos"]] = m
            for soll in (True, False):
                for variant in range(3):
                    _acc(r, check_case(RICH_SHAPE, exprs, item["cer"], soll, variant=variant), 10, {"rich": exprs, "soll": soll})
    return r


def _tup(x):
    return tuple(_tup(y) for y in x) if isinstance(x, list) else x


def replay(case):
    if "orders" in case:
        item = case["orders"]
        vloop, factory_for, observe, groups, exprs = _orders_setup(item)
        base = observe(vloop.run_schedule(factory_for(True), []))
        out = base if case.get("zero_yield") else observe(vloop.run_schedule(factory_for(False), case["choices"]))
        return [{"kind": k, "case": case, "expected": e, "observed": o} for k, e, o in _orders_violations(item, groups, out, base)]
    return check_case(_tup(case["shape"]), case["exprs"], case["cer"], case["soll_is_required"], case.get("entry", "deep"),
                      case.get("variant", 0), case.get("same_names", False), case.get("parent"), case.get("single_entry"))
