"""C19 — JSON serialisation round-trips trees, evaluation inputs and evaluation results (E1)."""
import itertools
import uuid

from checks import c09
from mc.enum import surface as S
from mc.runner import Result

ID = "C19"
TITLE = "JSON serialisation round-trips trees, evaluation inputs and evaluation results"
ENGINE = "e1-bounded-enumeration"

KINDS4 = list(itertools.product(S.ATOM_KINDS, repeat=2))
BOUNDS = {"quick": {"tree_n": 3, "gen": 3}, "thorough": {"tree_n": 4, "gen": 4}}
PACKAGES = {"1P": "[11] U [12P3..4]", "2P": "[UB3] O [13]", "3P": "[14][901]", "4P": "[1] X [2]", "5P": "[3]", "0P": "[4]"}


def describe(tier):
    b = BOUNDS[tier]
    return {
        "rule": f"(trees) every well-formed condition expression with <= {b['tree_n']} atoms and <= 2 bracket pairs, atom kinds [n] [nP] [nPa..b] "
                "[UBi] rotating through all 4x4 kind pairs by position, as (i) condition tree, (ii) unresolved AHB tree of 'Muss e', 'X e', "
                "'Muss e Soll e K', (iii) resolved tree with each of the 4 flag combinations (every third expression after the same trees went through the two "
                "Concise*TreeSchema dumps); (inputs) every ContentEvaluationResult generated "
                f"for all (m,n) <= {b['gen']} requirement/format keys, with and without packages and id; every CategorizedKeyExtract of those "
                "expressions, sanitised and unsanitised, incl. repeated and descending keys; EvaluatedFormatConstraint in {True,False} x "
                "{None,'','msg'}; (results) every AhbExpressionEvaluationResult / RequirementConstraintEvaluationResult / "
                "FormatConstraintEvaluationResult produced by evaluating the C09 menu (single and two-part AHB expressions) under all 6 "
                "permutations of FULFILLED/UNFULFILLED/UNKNOWN (this is where undetermined = null outcomes arise). (whitespace) 7 AHB templates (modal marks and operators in every letter case) with every combination of "
                f"{[repr(w) for w in WS]} in 4 gap classes; (deep) right-nested trees of depth {DEEP[tier]}; (histories) every sequence of <= {HIST_DEPTH[tier]} "
                f"operations from {HIST_OPS} (rejected loads of documents malformed at nesting depth 1/5/25, validate(), the concise schemata, a deep load) "
                "executed in one process, then the round trip of three reference trees. Oracle: "
                "schema.load(schema.dump(x)) == x and schema.loads(schema.dumps(x)) == x (trees compared with token types); "
                "evaluate(round-tripped tree) == evaluate(tree). Non-trivial = objects with a null outcome, a repeatability, an "
                "unsanitised extract or >= 2 parts.",
        "bounds": b,
        "exhaustive": True,
        "assumptions": ["only objects ahbicht itself produces (plus packages/id variations of generated content evaluation results)"],
    }


WS = [" ", "", "  ", "\t", "\n", "\r\n"]
WS_TEMPLATES = ["muss{0}[1]{1}u{2}[2]{3}SOLL{0}[3]", "m{0}[1]{1}o{2}([2]{3}x [3]){1}kann", "MUSS{0}[1]{1}∧{2}[2]{3}s{0}[3]{1}K",
                "Muss{0}[1]{1}U{2}[2]{3}Soll{0}[3]", "X{0}[1]{1}O{2}([2]{3}U [3]){1}", "Muss{0}[1]{1}[901]{2}K{3}", "Soll{0}[2P0..1]{1}X{2}[UB1]{3}"]
DEEP = {"quick": [10, 30, 50], "thorough": [5, 10, 20, 30, 40, 45, 50]}
# histories (E2): operations on the schemata between round trips
HIST_OPS = ["bad1", "bad5", "bad25", "validate", "validate-bad", "concise-load", "concise-dump", "load-deep", "loads-edit", "load-edit"]
HIST_DEPTH = {"quick": 3, "thorough": 4}
HIST_TREES = ["[1] U ([2] O [3])", "Muss [1] U [2P0..1] Soll [UB1] K", "[1]"]


def deep_expr(d):
    s = f"[{d + 1}]"
    for i in range(d, 0, -1):
        s = f"[{i}] {'UO'[i % 2]} ({s})"
    return s


def plan(tier, seed):
    b = BOUNDS[tier]
    parts = 48 if tier == "quick" else 384
    items = [{"fam": "trees", "n": b["tree_n"], "part": p, "parts": parts} for p in range(parts)]
    for t in range(len(WS_TEMPLATES)):
        for w0 in range(len(WS)):
            items.append({"fam": "whitespace", "tmpl": t, "w0": w0})
    for d in DEEP[tier]:
        items.append({"fam": "deep", "d": d})
    for first in range(len(HIST_OPS)):
        for second in range(len(HIST_OPS)):
            items.append({"fam": "history", "prefix": [first, second], "depth": HIST_DEPTH[tier]})
    for m in range(0, b["gen"] + 1):
        for n in range(0, b["gen"] + 1):
            items.append({"fam": "cer", "m": m, "n": n})
    items.append({"fam": "efc"})
    for ind in range(6):
        items.append({"fam": "product", "indicator": ind})
    for cer in range(6):
        for p in range(4):
            items.append({"fam": "results", "cer": cer, "part": p, "parts": 4})
    return items


_I = None
_SCH = {}


def worker_init():
    global _I
    from mc import impl

    impl.setup()
    _I = impl
    c09.worker_init()
    if not _SCH:
        from ahbicht.json_serialization.tree_schema import TreeSchema
        from ahbicht.models.categorized_key_extract import CategorizedKeyExtractSchema
        from ahbicht.models.condition_nodes import EvaluatedFormatConstraintSchema
        from ahbicht.models.content_evaluation_result import ContentEvaluationResultSchema
        from ahbicht.models.evaluation_results import (
            AhbExpressionEvaluationResultSchema,
            FormatConstraintEvaluationResultSchema,
            RequirementConstraintEvaluationResultSchema,
        )

        _SCH.update(tree=TreeSchema, cke=CategorizedKeyExtractSchema, efc=EvaluatedFormatConstraintSchema,
                    cer=ContentEvaluationResultSchema, ahb=AhbExpressionEvaluationResultSchema,
                    fcr=FormatConstraintEvaluationResultSchema, rcr=RequirementConstraintEvaluationResultSchema)


def _canon(x):
    """comparison form: trees with token types; everything else by its own __eq__ (attrs classes)"""
    from lark import Tree

    if isinstance(x, Tree):
        return _I.tree_to_tuple(x)
    return x


_LONG_LIVED = {}
_RT_COUNT = [0]


def roundtrip(kind, obj, case, long_lived=None):
    """returns violations for one object under schema `kind`"""
    out = []
    # one LONG-LIVED schema instance per kind serves every second object (applications keep their schema objects), a fresh one the others
    _RT_COUNT[0] += 1
    if long_lived or (long_lived is None and _RT_COUNT[0] % 2):
        sch = _LONG_LIVED.setdefault(kind, _SCH[kind]())
    else:
        sch = _SCH[kind]()
    for via in ("dict", "json"):
        try:
            if via == "dict":
                back = sch.load(sch.dump(obj))
            else:
                back = sch.loads(sch.dumps(obj))
        except BaseException as e:  # pylint:disable=broad-except
            if isinstance(e, (KeyboardInterrupt, SystemExit)):
                raise
            out.append({"kind": "roundtrip-raised", "case": dict(case, schema=kind, via=via), "expected": "equal object",
                        "observed": f"{type(e).__name__}: {str(e)[:200]}", "msg": repr(obj)[:300]})
            continue
        if _canon(back) != _canon(obj) or type(back) is not type(obj):
            out.append({"kind": "roundtrip-differs", "case": dict(case, schema=kind, via=via), "expected": repr(_canon(obj))[:400],
                        "observed": repr(_canon(back))[:400], "msg": ""})
    return out


ENV_RC = {"1": "F", "2": "U", "3": "?", "4": "F", "11": "F", "12": "U", "13": "?", "14": "F", "492": "F", "493": "U"}


def check_tree_expr(expr, concise_first=False):
    """all trees derived from one condition expression"""
    I = _I
    out = []
    n = 0
    env = lambda: I.Env(rc=ENV_RC, fc={"901": (True, None)}, packages=PACKAGES)  # noqa: E731
    t = I.parse_condition_expression_to_tree(expr)
    if concise_first:
        # the other public tree schemata dump the same trees; using them first must not influence TreeSchema
        from ahbicht.json_serialization.concise_condition_key_tree_schema import ConciseConditionKeyTreeSchema
        from ahbicht.json_serialization.concise_tree_schema import ConciseTreeSchema

        for sch in (ConciseConditionKeyTreeSchema, ConciseTreeSchema):
            for tree in (t, I.run(I.parse_expression_including_unresolved_subexpressions("Muss " + expr, resolve_packages=True), env())):
                I.try_call(sch().dump, tree)
    out += roundtrip("tree", t, {"expr": expr, "what": "condition-tree", "concise_first": concise_first})
    n += 1
    for ahb in ("Muss " + expr, "X" + expr, f"Muss {expr} Soll{expr}K"):
        ta = I.parse_ahb_expression_to_single_requirement_indicator_expressions(ahb)
        out += roundtrip("tree", ta, {"expr": ahb, "what": "unresolved-ahb-tree"})
        n += 1
        for fp, ft in ((False, False), (True, False), (False, True), (True, True)):
            tr = I.run(I.parse_expression_including_unresolved_subexpressions(ahb, resolve_packages=fp, replace_time_conditions=ft), env())
            case = {"expr": ahb, "what": "resolved-tree", "flags": [fp, ft]}
            vs = roundtrip("tree", tr, case)
            out += vs
            n += 1
            if fp and ft and not vs:
                # evaluating a round-tripped tree gives the same result
                sch = _SCH["tree"]()
                back = sch.loads(sch.dumps(tr))
                a = I.try_call(lambda: I.run(I.evaluate_ahb_expression_tree(tr), env()))
                b = I.try_call(lambda: I.run(I.evaluate_ahb_expression_tree(back), env()))
                n += 1
                if a[:2] != b[:2]:
                    out.append({"kind": "evaluation-of-roundtripped-tree-differs", "case": case, "expected": repr(a[1])[:300],
                                "observed": repr(b[1])[:300], "msg": ahb})
                elif a[0] == "ok":
                    out += roundtrip("ahb", a[1], {"expr": ahb, "what": "evaluation-result"})
                    n += 1
    # key extracts: sanitised / unsanitised
    for fp, ft in ((False, False), (True, True)):
        tr = I.run(I.parse_expression_including_unresolved_subexpressions(expr, resolve_packages=fp, replace_time_conditions=ft), env())
        for sanitize in (False, True):
            r = I.try_call(I.extract_categorized_keys_from_tree, tr, sanitize)
            if r[0] == "ok":
                out += roundtrip("cke", r[1], {"expr": expr, "what": "categorized-key-extract", "sanitize": sanitize, "flags": [fp, ft]})
                n += 1
    return out, n


def _bad_doc(depth):
    """a document that is well-formed down to `depth` nested trees and malformed at the deepest one"""
    doc = {"type": "condition", "children": [{"token": {"value": "1", "type": 42}, "tree": None}]}  # token type must be a string
    for _ in range(depth - 1):
        doc = {"type": "and_composition", "children": [{"token": None, "tree": doc}]}
    return doc


_HIST = {}


def _hist_setup():
    I = _I
    if not _HIST:
        sch = _SCH["tree"]()
        _HIST["valid_doc"] = sch.dump(I.parse_condition_expression_to_tree("[1] U ([2] O [3])"))
        _HIST["valid_json"] = sch.dumps(I.parse_condition_expression_to_tree("[1] U ([2] O [3])"))
        _HIST["deep_doc"] = sch.dump(I.parse_condition_expression_to_tree(deep_expr(40)))
        trees = []
        for e in HIST_TREES:
            t = I.parse_condition_expression_to_tree(e) if e.startswith("[") else \
                I.parse_ahb_expression_to_single_requirement_indicator_expressions(e)
            trees.append((e, t))
        _HIST["trees"] = trees
    return _HIST


def apply_hist_op(op):
    """one operation of a history on the tree schemata; failures of the operation itself are expected and ignored"""
    from ahbicht.json_serialization.concise_condition_key_tree_schema import ConciseConditionKeyTreeSchema
    from ahbicht.json_serialization.concise_tree_schema import ConciseTreeSchema

    I = _I
    h = _hist_setup()
    sch = _SCH["tree"]
    if op.startswith("bad"):
        I.try_call(sch().load, _bad_doc(int(op[3:])))
    elif op == "validate":
        I.try_call(sch().validate, h["valid_doc"])
    elif op == "validate-bad":
        I.try_call(sch().validate, _bad_doc(3))
    elif op == "concise-load":
        for c in (ConciseTreeSchema, ConciseConditionKeyTreeSchema):
            I.try_call(c().load, h["valid_doc"])
    elif op == "concise-dump":
        for c in (ConciseTreeSchema, ConciseConditionKeyTreeSchema):
            I.try_call(c().dump, h["trees"][0][1])
    elif op == "load-deep":
        I.try_call(sch().load, h["deep_doc"])
    elif op in ("loads-edit", "load-edit"):
        # load the document of the first reference tree and EDIT the tree that comes back (it is the caller's)
        r = I.try_call(sch().loads, h["valid_json"]) if op == "loads-edit" else I.try_call(sch().load, h["valid_doc"])
        if r[0] == "ok" and r[1].children:
            del r[1].children[1:]
            r[1].data = "edited"
    else:
        raise ValueError(op)


def check_history(ops):
    """after the operations `ops` every reference tree still round-trips"""
    h = _hist_setup()
    for op in ops:
        apply_hist_op(op)
    out = []
    for e, t in h["trees"]:
        for v in roundtrip("tree", t, {"expr": e, "history": list(ops)}):
            v["kind"] = "after-history/" + v["kind"]
            out.append(v)
    return out


def check_ws_expr(ahb):
    I = _I
    out = []
    n = 0
    r = I.try_call(I.parse_ahb_expression_to_single_requirement_indicator_expressions, ahb)
    if r[0] == "exc":
        return [{"kind": "well-formed-ahb-expression-rejected", "case": {"expr": ahb}, "expected": "a tree", "observed": r[1], "msg": repr(ahb)}], 0
    out += roundtrip("tree", r[1], {"expr": ahb, "what": "unresolved-ahb-tree", "ws": True})
    n += 1
    env = I.Env(rc=ENV_RC, fc={"901": (True, None)}, packages=PACKAGES)
    tr = I.try_call(lambda: I.run(I.parse_expression_including_unresolved_subexpressions(ahb, resolve_packages=True, replace_time_conditions=True), env))
    if tr[0] == "ok":
        out += roundtrip("tree", tr[1], {"expr": ahb, "what": "resolved-tree", "flags": [True, True], "ws": True})
        n += 1
    return out, n


def _tree_exprs(nmax):
    k = 0
    for n in range(1, nmax + 1):
        for q in range(0, 3):
            for tmpl in S.exprs_exact(n, q):
                k += 1
                kinds = KINDS4[k % 16]
                atoms = []
                for i in range(n):
                    kind = kinds[i % 2]
                    base = [3, 2, 1, 2][i % 4] if k % 5 == 0 else (i % 4) + 1  # descending / repeated keys now and then
                    atoms.append(S.atom_text(i, kind, base=base - i))
                yield S.render(tmpl, atoms=atoms)


def run_item(item):
    if _I is None:
        worker_init()
    I = _I
    r = Result()

    def acc(vs, n, nontrivial, sample):
        r.evaluations += n
        r.states += n
        r.transitions += 2 * n
        r.traces += n
        r.nontrivial += n if nontrivial else 0
        for v in vs:
            r.violation(v["kind"], v["case"], v["expected"], v["observed"], v["msg"])
        r.sample(sample, limit=2)

    fam = item["fam"]
    _LONG_LIVED.clear()  # every partition starts with fresh long-lived schema instances (a partition is replayable on its own)
    _RT_COUNT[0] = 0
    if fam == "trees":
        for i, expr in enumerate(_tree_exprs(item["n"])):
            if i % item["parts"] != item["part"]:
                continue
            vs, n = check_tree_expr(expr, concise_first=(i % 3 == 0))
            acc(vs, n, ".." in expr or "UB" in expr, {"expr": expr, "objects": n})
    elif fam == "whitespace":
        for w1, w2, w3 in itertools.product(WS, repeat=3):
            ahb = WS_TEMPLATES[item["tmpl"]].format(WS[item["w0"]], w1, w2, w3)
            vs, n = check_ws_expr(ahb)
            acc(vs, n, True, {"expr": ahb})
    elif fam == "deep":
        expr = deep_expr(item["d"])
        t = I.parse_condition_expression_to_tree(expr)
        acc(roundtrip("tree", t, {"expr": expr, "what": "condition-tree"}), 1, True, {"depth": item["d"]})
        ta = I.parse_ahb_expression_to_single_requirement_indicator_expressions("Muss " + expr)
        acc(roundtrip("tree", ta, {"expr": "Muss " + expr, "what": "unresolved-ahb-tree"}), 1, True, {"depth": item["d"]})
    elif fam == "history":
        pre = [HIST_OPS[i] for i in item["prefix"]]
        for k in range(0, item["depth"] - len(pre) + 1):
            for rest in itertools.product(HIST_OPS, repeat=k):
                ops = pre + list(rest)
                acc(check_history(ops), 1, True, {"history": ops})
                r.stat("histories")
    elif fam == "cer":
        from ahbicht.models.categorized_key_extract import CategorizedKeyExtract

        rc = ["1", "17", "2499", "5"][:item["m"]]
        fc = ["901", "950", "999", "933"][:item["n"]]
        x = CategorizedKeyExtract(hint_keys=["501", "777"][:item["m"]], format_constraint_keys=fc, requirement_constraint_keys=rc,
                                  package_keys=["1P"][:item["n"]], time_condition_keys=["UB1"][:item["m"]])
        acc(roundtrip("cke", x, {"what": "extract", "m": item["m"], "n": item["n"]}), 1, False, {"extract": [rc, fc]})
        for j, cer in enumerate(x.generate_possible_content_evaluation_results()):
            vs = roundtrip("cer", cer, {"what": "generated-cer", "m": item["m"], "n": item["n"], "index": j})
            n = 1
            if j % 7 == 0:
                cer.packages = {"1P": "[1] U [2]", "23P": "[UB1]"}
                cer.id = uuid.UUID(int=j + 1)
                # results that SHARE an id but differ in content, through one long-lived schema instance (ids are not unique)
                vs += roundtrip("cer", cer, {"what": "generated-cer+packages+id", "m": item["m"], "n": item["n"], "index": j}, long_lived=True)
                cer.packages = None
                vs += roundtrip("cer", cer, {"what": "generated-cer+no-packages", "m": item["m"], "n": item["n"], "index": j}, long_lived=True)
                n += 2
            acc(vs, n, item["m"] >= 1 and item["n"] >= 1, {"cer_index": j, "m": item["m"], "n": item["n"]})
    elif fam == "efc":
        for ful in (True, False):
            for msg in (None, "", "msg", "Bedingung [901] ∧ \"quoted\" \n newline"):
                x = I.EvaluatedFormatConstraint(format_constraint_fulfilled=ful, error_message=msg)
                acc(roundtrip("efc", x, {"what": "evaluated-format-constraint", "fulfilled": ful, "message": msg}), 1, msg is not None,
                    {"efc": [ful, msg]})
    elif fam == "product":
        # the small field-value product of the three result classes (user-supplied evaluators decide texts: '' is possible)
        from ahbicht.models.enums import ModalMark, PrefixOperator
        from ahbicht.models.evaluation_results import (
            AhbExpressionEvaluationResult,
            FormatConstraintEvaluationResult,
            RequirementConstraintEvaluationResult,
        )

        ind = [ModalMark.MUSS, ModalMark.SOLL, ModalMark.KANN, PrefixOperator.X, PrefixOperator.O, PrefixOperator.U][item["indicator"]]
        fcrs = [FormatConstraintEvaluationResult(format_constraints_fulfilled=f, error_message=m)
                for f in (True, False) for m in (None, "", "msg")]
        for ful, cond, fcx, hints in itertools.product((True, False, None), (True, False, None), (None, "", "[901] U [902]"),
                                                       (None, "", "Hinweis [501]")):
            rcr = RequirementConstraintEvaluationResult(requirement_constraints_fulfilled=ful, requirement_is_conditional=cond,
                                                        format_constraints_expression=fcx, hints=hints)
            case = {"what": "result-product", "indicator": item["indicator"], "fields": [ful, cond, fcx, hints]}
            vs = roundtrip("rcr", rcr, case) if item["indicator"] == 0 else []
            for k, fcr in enumerate(fcrs):
                if item["indicator"] == 0 and (ful, cond, fcx, hints) == (True, True, None, None):
                    vs += roundtrip("fcr", fcr, dict(case, fcr=k))
                vs += roundtrip("ahb", AhbExpressionEvaluationResult(requirement_indicator=ind, requirement_constraint_evaluation_result=rcr,
                                                                     format_constraint_evaluation_result=fcr), dict(case, fcr=k))
            acc(vs, len(fcrs) + 1, ful is None or "" in (fcx, hints), {"result_product": [str(ind), ful, cond, fcx, hints]})
    elif fam == "results":
        cer = item["cer"]
        singles = [[(ind, "", cond, "")] for ind in ("Muss", "s", "X", "u") for cond in c09.MENU]
        singles += [[(ind, None, None, None)] for ind in ("K", "Soll", "o")]
        doubles = [[("Muss", " ", c1, " "), ("Kann", " ", c2, "")] for c1 in c09.MENU for c2 in c09.OUTCOME_MENU]
        for i, parts in enumerate(singles + doubles):
            if i % item["parts"] != item["part"]:
                continue
            s = c09.text_of(parts)
            env = c09._env(cer)
            a = I.try_call(lambda: I.run(I.evaluate_ahb_expression_tree(
                I.run(I.parse_expression_including_unresolved_subexpressions(s, resolve_packages=True), env)), c09._env(cer)))
            if a[0] != "ok":
                continue
            res = a[1]
            case = {"expr": s, "cer": c09.CERS[cer], "what": "evaluation-result"}
            vs = roundtrip("ahb", res, case)
            vs += roundtrip("rcr", res.requirement_constraint_evaluation_result, case)
            vs += roundtrip("fcr", res.format_constraint_evaluation_result, case)
            acc(vs, 3, res.requirement_constraint_evaluation_result.requirement_constraints_fulfilled is None or len(parts) > 1,
                {"expr": s, "fulfilled": res.requirement_constraint_evaluation_result.requirement_constraints_fulfilled})
    return r


def replay(case):
    """re-executes the family the case came from and returns the violations for the same object"""
    if _I is None:
        worker_init()
    what = case.get("what")
    if "history" in case:
        return check_history(case["history"])
    if case.get("ws"):
        return check_ws_expr(case["expr"])[0]
    if what in ("condition-tree",) or (what == "categorized-key-extract"):
        vs, _ = check_tree_expr(case["expr"], case.get("concise_first", False))
    elif what in ("unresolved-ahb-tree", "resolved-tree"):
        e = case["expr"]
        # recover the inner condition expression
        inner = e[5:] if e.startswith("Muss ") and " Soll" not in e else (e[1:] if e.startswith("X") else e[5:e.index(" Soll")])
        vs, _ = check_tree_expr(inner)
    elif what in ("generated-cer", "generated-cer+packages+id", "generated-cer+no-packages", "extract"):
        vs = run_item({"fam": "cer", "m": case["m"], "n": case["n"]}).violations
    elif what == "result-product":
        vs = run_item({"fam": "product", "indicator": case["indicator"]}).violations
        vs = [v for v in vs if v["case"].get("fields") == case["fields"] and v["case"].get("fcr") == case.get("fcr")]
    elif what == "evaluated-format-constraint":
        vs = run_item({"fam": "efc"}).violations
    elif what == "evaluation-result" and "cer" in case:
        cer = c09.CERS.index(case["cer"])
        vs = []
        for p in range(4):
            vs += run_item({"fam": "results", "cer": cer, "part": p, "parts": 4}).violations
        vs = [v for v in vs if v["case"].get("expr") == case["expr"]]
    else:
        inner = case["expr"]
        inner = inner[5:] if inner.startswith("Muss ") and " Soll" not in inner else inner
        vs, _ = check_tree_expr(inner)
    return [v for v in vs if v["case"].get("schema") == case.get("schema") and v["case"].get("what") == what] or vs
