"""C08 — format-constraint evaluation is Boolean and explains every failure (E1)."""
import itertools

from checks import _exprs as X
from mc.enum import asts as A
from mc.ref import reqeval as R3
from mc.runner import Result

ID = "C08"
TITLE = "Format-constraint evaluation is Boolean and explains every failure"
ENGINE = "e1-bounded-enumeration"

BOUNDS = {"quick": [1, 2, 3, 4], "thorough": [1, 2, 3, 4, 5]}
LONG = {"quick": [6, 10, 11, 12, 21], "thorough": [6, 7, 8, 9, 10, 11, 12, 13, 16, 20, 21, 22, 31, 33]}
LONG_OPS = ["U", "O", "X", "UO", "OU", "XU", "UOX"]
# the library's own (plain) evaluate_931..935 methods mixed with harness keys answered by coroutine methods and vice versa
BUILTIN_EXPRS = ["[901] U [931]", "[901] U ([931] O [932])", "[931] X [901] U [934]", "([902] O [933]) U [999] X [935]", "[932] U [901] O [934]", "[999] X [933] X [901]"]
BUILTIN_TEXTS = ["2022-12-31T23:00:00+00:00", "2022-06-01T04:00:00+00:00", "2022-01-01T00:00:00+00:00", "2022-01-01T00:00:00+01:30", "kein Datum"]
OVERRIDE_EXPRS = ["[933]", "[935] U [933]", "[901] X [935]", "[933] O [932]", "[931] U [934] X [935]"]
ORDER_EXPRS = ["[950]O([951]U[952])", "([952] X [950]) U [951]", "[951] U [952] O [950]"]
BOOL = {"and_composition": lambda a, b: a and b, "or_composition": lambda a, b: a or b, "xor_composition": lambda a, b: a != b}


def describe(tier):
    return {
        "rule": f"every expression over format-constraint keys with U/O/X and brackets with {BOUNDS[tier]} leaves and EVERY key labelling "
                "(repeated keys included) x ALL 2^f truth assignments; each unfulfilled single constraint carries its own message. Oracle: "
                "format_constraints_fulfilled == Boolean value (Python and / or / !=) of the expression under the DOCUMENTED precedence "
                "(reference parser R2; expressions with 3-4 leaves also in mixed letter/symbol notation); an error message is "
                "present iff the result is unfulfilled; through evaluate_format_constraint_tree (messages supplied) and through "
                "format_constraint_evaluation with a harness FcEvaluator whose evaluate methods return no message (default-message path), "
                "all-sync, all-async and MIXED sync/async evaluation methods (an async key written before a plain one and vice versa), and (3 keys, all 8 assignments, 3 expressions) under ALL completion orders of "
                "suspending evaluate_<key> coroutines on the virtual event loop; None and '' count as fulfilled; "
                f"{len(BUILTIN_EXPRS)} expressions that mix the library's own plain evaluate_931..935 with harness keys (coroutine and plain methods) on {len(BUILTIN_TEXTS)} texts: "
                "value == documented combination of the verdicts each shipped constraint gives alone; "
                f"flat chains with {LONG[tier]} key occurrences x operator patterns {LONG_OPS} (2 or 3 keys cycling under all assignments; all keys distinct under "
                "all-true / all-false with <= 1 deviation: deviation-bounded, not all 2^L); expressions with <= 3 leaves also through the library's DictBased / "
                "ContentEvaluationResultBased format constraint evaluators (fresh and one shared EvaluatableData object) and user-style method based evaluators (also ones that define their own methods for the shipped keys 931-935). Non-trivial = (expression, assignment) pairs with >= 2 "
                "operators.",
        "bounds": {"leaves": BOUNDS[tier]},
        "exhaustive": True,
        "assumptions": ["every unfulfilled single constraint carries an error message (premise of the property)"],
    }


def plan(tier, seed):
    items = [{"fam": "empty", "seed": seed}]
    for mode in ("hardcoded", "cer", "methods", "cer-shared"):
        for n in (1, 2, 3):
            items.append({"fam": "modes", "mode": mode, "n": n, "seed": seed})
    # completion orders of suspending evaluate_<key> methods (virtual event loop): "under the evaluated single constraints"
    for e in range(len(ORDER_EXPRS)):
        for bits in range(8):
            items.append({"fam": "orders", "expr": e, "bits": bits, "early": 0 if tier == "quick" else 1})
    # long flat chains (many key occurrences): few keys cycling under all assignments; all-distinct keys deviation-bounded
    for L in LONG[tier]:
        for ops in range(len(LONG_OPS)):
            items.append({"fam": "long", "L": L, "ops": ops, "seed": seed})
    for e in range(len(BUILTIN_EXPRS)):
        items.append({"fam": "builtin", "expr": e})
    # ONE provider holding user-style (method based) FC evaluators for two format versions whose single constraints are judged
    # differently; evaluations alternate between the versions
    for e in range(len(ORDER_EXPRS)):
        items.append({"fam": "versions", "expr": e})
    for n in BOUNDS[tier]:
        parts = {1: 1, 2: 1, 3: 4, 4: 32, 5: 512}[n]
        for p in range(parts):
            items.append({"fam": "ast", "n": n, "part": p, "parts": parts, "seed": seed})
    return items


def worker_init():
    X.init()


def _bool(tt, val):
    k = R3.leaf_key(tt)
    if k is not None:
        return val[k]
    return BOOL[tt[0]](_bool(tt[1], val), _bool(tt[2], val))


def long_cases(L, ops, seed):
    """(expression, assignments or None=all) for one chain length and operator pattern"""
    sp = X.spelling(seed)
    opname = {"U": "and", "O": "or", "X": "xor"}
    pat = LONG_OPS[ops]
    pool = [str(k) for k in range(901, 1000) if not 931 <= k <= 935]

    def chain(keys):
        s = f"[{keys[0]}]"
        for i, k in enumerate(keys[1:]):
            s += f" {sp[opname[pat[i % len(pat)]]]} [{k}]"
        return s

    for nk in (2, 3):
        yield chain([pool[i % nk] for i in range(L)]), None
    keys = pool[:L]
    vals = []
    for base in (True, False):
        vals.append({k: base for k in keys})
        for d in keys:
            vals.append({k: (base if k != d else not base) for k in keys})
    yield chain(keys), vals


def check_expr(expr, only=None, vals_list=None):
    from mc.ref import condparse as R2

    I = X.init()
    out = []
    pr = X.parse(expr)
    if pr[0] == "exc":
        return [{"kind": "parse-failed", "case": {"expr": expr}, "expected": "tree", "observed": pr[1], "msg": expr}], 0
    _, T, tt = pr
    ref = R2.parse(expr)  # the DOCUMENTED precedence (reference parser), independent of the implementation's tree
    keys = R3.keys_of(tt)
    n = 0
    if only is not None and vals_list is None:
        vals_list = [only]
    for val in (vals_list if vals_list is not None else (dict(zip(keys, vals)) for vals in itertools.product((True, False), repeat=len(keys)))):
        if only is not None and val != only:
            continue
        exp = R2.to_bool(ref, val)
        if exp != _bool(tt, val):
            out.append({"kind": "boolean-value", "case": {"expr": expr, "fc": val}, "expected": exp, "observed": _bool(tt, val),
                        "msg": f"{expr}: the implementation's parse tree does not have the documented precedence"})
            continue
        case = {"expr": expr, "fc": val}
        # (a) the transformer with explicit messages
        nodes = {k: I.EvaluatedFormatConstraint(format_constraint_fulfilled=v, error_message=None if v else f"msg {k}")
                 for k, v in val.items()}
        r = I.try_call(I.evaluate_format_constraint_tree, T, nodes)
        n += 1
        obs = []
        if r[0] == "exc":
            obs.append(("tree", "exc:" + r[1], None))
        else:
            obs.append(("tree", r[1].format_constraint_fulfilled, r[1].error_message))
        # (b) the async entry point; harness evaluators return NO message (default message path); once all-sync, once async
        for mode in ("sync", "async", "mixed"):
            fc = {k: (v, None) for k, v in val.items()}
            env = I.Env(fc=fc, yielder=None if mode == "sync" else _no_yield,
                        sync={("fc", k) for k in I.sync_subset(fc)} if mode == "mixed" else ())
            rr = I.try_call(lambda: I.run(I.format_constraint_evaluation(expr), env))
            n += 1
            if rr[0] == "exc":
                obs.append((mode, "exc:" + rr[1], None))
            else:
                obs.append((mode, rr[1].format_constraints_fulfilled, rr[1].error_message))
        for where, ful, msg in obs:
            if ful is not exp:
                out.append({"kind": "boolean-value", "case": case, "expected": exp, "observed": ful,
                            "msg": f"{expr} under {val} via {where}"})
            elif (msg is not None) != (not exp):
                out.append({"kind": "message-iff-unfulfilled", "case": case, "expected": "message" if not exp else "no message",
                            "observed": msg, "msg": f"{expr} under {val} via {where}: fulfilled={ful}"})
            elif msg is not None and (not isinstance(msg, str) or msg == ""):
                out.append({"kind": "message-empty", "case": case, "expected": "non-empty str", "observed": repr(msg), "msg": expr})
    return out, n


def check_builtin(expr, text, val):
    """expression over shipped constraints (931-935, UBn) and harness keys: the shipped ones are first evaluated ALONE on the same
    text (C20 judges those verdicts); the expression's value must be the documented combination"""
    from mc.ref import condparse as R2
    from mc.ref import subst as R6

    I = X.init()
    out = []
    plain = R6.substitute(expr, {}, False, True)
    ref = R2.parse(plain)
    keys = sorted({lf[1] for lf in R2.leaves(ref)})
    case = {"expr": expr, "text": text, "fc": val, "builtin": True}

    def run(e):
        async def go():
            I.text_to_be_evaluated_by_format_constraint.set(text)
            return await I.format_constraint_evaluation(e)

        fc = {k: (v, None if v else f"msg {k}") for k, v in val.items()}
        return I.try_call(lambda: I.run(go(), I.Env(fc=fc, yielder=_no_yield, sync={("fc", k) for k in I.sync_subset(fc)})))

    full = dict(val)
    for k in keys:
        if k not in full:
            r = run(f"[{k}]")
            if r[0] == "exc":
                return [{"kind": "raised", "case": case, "expected": "a verdict for the shipped constraint alone", "observed": r[1], "msg": k}]
            full[k] = r[1].format_constraints_fulfilled
    exp = R2.to_bool(ref, full)
    r = run(expr)
    if r[0] == "exc":
        out.append({"kind": "raised", "case": case, "expected": exp, "observed": r[1], "msg": expr})
    elif r[1].format_constraints_fulfilled is not exp:
        out.append({"kind": "boolean-value/shipped+custom", "case": case, "expected": exp, "observed": r[1].format_constraints_fulfilled,
                    "msg": f"{expr} on {text!r}: single verdicts {full}"})
    elif (r[1].error_message is not None) != (not exp):
        out.append({"kind": "message-iff-unfulfilled", "case": case, "expected": "message" if not exp else "no message",
                    "observed": r[1].error_message, "msg": f"{expr} on {text!r}"})
    return out


def check_expr_mode(expr, mode, only=None, no_messages=None):
    """format_constraint_evaluation through the library's shipped evaluators / user-style method based evaluators"""
    from mc import impl_modes as M

    I = X.init()
    out = []
    tt = X.parse(expr)[2]
    keys = R3.keys_of(tt)
    n = 0
    for vals in itertools.product((True, False), repeat=len(keys)):
        val = dict(zip(keys, vals))
        if only is not None and val != only:
            continue
        n += 1
        exp = _bool(tt, val)
        case = {"expr": expr, "fc": val, "mode": mode}
        r = I.try_call(lambda: M.run(mode, lambda: I.format_constraint_evaluation(expr),
                                     fc={k: (v, None if v else f"msg {k}") for k, v in val.items()}))
        if r[0] == "exc":
            out.append({"kind": "raised/" + mode, "case": case, "expected": exp, "observed": r[1], "msg": expr})
        elif r[1].format_constraints_fulfilled is not exp:
            out.append({"kind": "boolean-value/" + mode, "case": case, "expected": exp, "observed": r[1].format_constraints_fulfilled,
                        "msg": f"{expr} under {val} through the {mode} evaluators"})
        elif (r[1].error_message is not None) != (not exp):
            out.append({"kind": "message-iff-unfulfilled/" + mode, "case": case, "expected": "message" if not exp else "no message",
                        "observed": r[1].error_message, "msg": f"{expr} under {val} through the {mode} evaluators"})
        # the same with unfulfilled single constraints that carry NO message (what generate_possible_content_evaluation_results
        # produces; the shipped evaluators pass them through): the Boolean value is still the documented one (the message clause
        # has a premise that does not hold here and is not judged)
        if not all(val.values()):
            n += 1
            r = I.try_call(lambda: M.run(mode, lambda: I.format_constraint_evaluation(expr), fc={k: (v, None) for k, v in val.items()}))
            if r[0] == "exc":
                out.append({"kind": "raised/" + mode, "case": dict(case, no_messages=True), "expected": exp, "observed": r[1], "msg": expr})
            elif r[1].format_constraints_fulfilled is not exp:
                out.append({"kind": "boolean-value/" + mode, "case": dict(case, no_messages=True), "expected": exp,
                            "observed": r[1].format_constraints_fulfilled,
                            "msg": f"{expr} under {val} (single constraints without messages) through the {mode} evaluators"})
    return out, n


def check_versions(expr, val0, val1):
    """format_constraint_evaluation of `expr` alternating between two format versions behind one token logic provider"""
    from mc import impl_modes as M

    I = X.init()
    tt = X.parse(expr)[2]
    seq = (0, 1, 0, 1)
    fcs = [{k: (v, None if v else f"msg v{i} {k}") for k, v in val.items()} for i, val in enumerate((val0, val1))]
    res = M.run_versions(lambda: I.format_constraint_evaluation(expr), [{}, {}], seq, fc_by_version=fcs)
    out = []
    for i, (v, r) in enumerate(zip(seq, res)):
        exp = _bool(tt, (val0, val1)[v])
        case = {"expr": expr, "versions": [val0, val1], "step": i}
        if r[0] == "exc":
            out.append({"kind": "raised/two-versions", "case": case, "expected": exp, "observed": r[1], "msg": expr})
            break
        if r[1].format_constraints_fulfilled is not exp or (r[1].error_message is not None) != (not exp) or \
                (r[1].error_message is not None and f"v{1 - v} " in r[1].error_message):
            out.append({"kind": "boolean-value/two-versions", "case": case, "expected": [exp, "message" if not exp else None],
                        "observed": [r[1].format_constraints_fulfilled, r[1].error_message],
                        "msg": f"{expr}: evaluation {i + 1} of the sequence {list(seq)} carries format version {v} whose evaluator judges {(val0, val1)[v]}"})
            break
    return out


async def _no_yield(kind, key):
    return None


def run_item(item):
    I = X.init()
    r = Result()
    if item["fam"] == "empty":
        for e in (None, ""):
            rr = I.try_call(lambda: I.run(I.format_constraint_evaluation(e), I.Env()))
            r.evaluations += 1
            r.states += 1
            r.transitions += 1
            r.traces += 1
            ok = rr[0] == "ok" and rr[1].format_constraints_fulfilled is True and rr[1].error_message is None
            if not ok:
                r.violation("absent-not-fulfilled", {"expr": e, "empty": True}, "fulfilled, no message", repr(rr[1]))
        r.sample({"expr": None})
        return r
    if item["fam"] == "orders":
        return _run_orders(item, r)
    if item["fam"] == "builtin":
        expr = BUILTIN_EXPRS[item["expr"]]
        custom = [k for k in ("901", "902", "999") if f"[{k}]" in expr]
        for text in BUILTIN_TEXTS:
            for vals in itertools.product((True, False), repeat=len(custom)):
                vs = check_builtin(expr, text, dict(zip(custom, vals)))
                r.evaluations += 1
                r.states += 1
                r.transitions += 1
                r.traces += 1
                r.nontrivial += 1
                for v in vs:
                    r.violation(v["kind"], v["case"], v["expected"], v["observed"], v["msg"])
        r.sample({"expr": expr, "texts": len(BUILTIN_TEXTS)})
        return r
    if item["fam"] == "versions":
        from mc import impl_modes as M

        expr = ORDER_EXPRS[item["expr"]]
        keys = R3.keys_of(X.parse(expr)[2])
        try:
            for v0 in itertools.product((True, False), repeat=len(keys)):
                for v1 in itertools.product((True, False), repeat=len(keys)):
                    if v0 == v1:
                        continue
                    for v in check_versions(expr, dict(zip(keys, v0)), dict(zip(keys, v1))):
                        r.violation(v["kind"], v["case"], v["expected"], v["observed"], v["msg"])
                    r.evaluations += 4
                    r.states += 4
                    r.transitions += 4
                    r.nontrivial += 4
                    r.stat("two_version_sequences")
            r.traces += 1
        finally:
            M.restore()
        r.sample({"expr": expr, "versions": 2})
        return r
    if item["fam"] == "long":
        for expr, vals in long_cases(item["L"], item["ops"], item["seed"]):
            vs, n = check_expr(expr, vals_list=vals)
            r.evaluations += n
            r.states += n // 4
            r.transitions += n
            r.traces += 1
            r.nontrivial += n // 4
            r.stat("long_chain_executions", n)
            for v in vs:
                r.violation(v["kind"], v["case"], v["expected"], v["observed"], v["msg"])
        r.sample({"expr": expr[:60] + "...", "L": item["L"]})
        return r
    if item["fam"] == "modes":
        from mc import impl_modes as M

        pools = X.pools(item["seed"])
        try:
            for ast in A.asts(item["n"], "all", pools={"fc": pools["fc"][:5], "rc": [], "hint": []}, classes=("fc",), ops=("and", "or", "xor")):
                expr = X.render(ast, item["seed"])
                vs, n = check_expr_mode(expr, item["mode"])
                r.evaluations += n
                r.states += n
                r.transitions += n
                r.traces += 1
                r.nontrivial += n if item["n"] >= 2 else 0
                for v in vs:
                    r.violation(v["kind"], v["case"], v["expected"], v["observed"], v["msg"])
                r.sample({"expr": expr, "mode": item["mode"]})
            if item["mode"] == "methods" and item["n"] == 2:
                # user evaluators may define THEIR OWN evaluate methods for the keys the library ships (931-935)
                for expr in OVERRIDE_EXPRS:
                    vs, n = check_expr_mode(expr, "methods")
                    r.evaluations += n
                    r.states += n
                    r.transitions += n
                    r.traces += 1
                    r.nontrivial += n
                    for v in vs:
                        r.violation(v["kind"], v["case"], v["expected"], v["observed"], v["msg"])
        finally:
            M.restore()
        return r
    pools = X.pools(item["seed"])
    i = -1
    for ast in A.asts(item["n"], "all", pools={"fc": pools["fc"][:5], "rc": [], "hint": []}, classes=("fc",),
                      ops=("and", "or", "xor")):
        i += 1
        if i % item["parts"] != item["part"]:
            continue
        expr = X.render(ast, item["seed"])
        vs, n = check_expr(expr)
        if item["n"] in (3, 4):
            # the same expression with MIXED operator notations (letter and symbol operators meet)
            for k in (1, 2):
                sp = dict(X.spelling(item["seed"]))
                op = ("and", "or", "xor")[(i + k) % 3]
                sp[op] = {"and": "∧", "or": "∨", "xor": "⊻"}[op] if sp[op] in "UuOoXx" else {"and": "U", "or": "O", "xor": "X"}[op]
                mixed = A.render(ast, spell=sp, sp=X.spacing(item["seed"]))
                if mixed != expr:
                    vs2, n2 = check_expr(mixed)
                    vs += vs2
                    n += n2
        r.evaluations += n
        r.states += n // 4
        r.transitions += n
        r.traces += 1
        if item["n"] >= 3:
            r.nontrivial += n // 4
        for v in vs:
            r.violation(v["kind"], v["case"], v["expected"], v["observed"], v["msg"])
        r.sample({"expr": expr, "executions": n})
    return r


def _orders_setup(item):
    import json

    from mc import vloop

    I = X.init()
    expr = ORDER_EXPRS[item["expr"]]
    val = {k: bool(item["bits"] >> i & 1) for i, k in enumerate(("950", "951", "952"))}
    tt = X.parse(expr)[2]
    exp = _bool(tt, val)

    def factory(sched):
        async def y(kind, key):
            await sched.point(f"{kind}:{key}")

        env = I.Env(fc={k: (v, None if v else f"msg {k}") for k, v in val.items()}, yielder=y)

        async def main():
            I.ENV.set(env)
            r = await I.format_constraint_evaluation(expr)
            return [r.format_constraints_fulfilled, r.error_message is not None]

        return main()

    def observe(ex):
        return json.dumps(["exception", type(ex.exception).__name__] if ex.exception is not None else ex.result)

    return vloop, factory, observe, json.dumps([exp, not exp]), expr, val


def _run_orders(item, r):
    vloop, factory, observe, want, expr, val = _orders_setup(item)
    exp = vloop.explore(factory, observe, order_bound=None, early_bound=item["early"])
    r.evaluations += exp.schedules
    r.states += exp.decision_points
    r.transitions += exp.decision_points
    r.traces += exp.schedules
    r.nontrivial += max(0, len(exp.completion_traces) - 1)
    r.stat("schedules", exp.schedules)
    for out in exp.outcomes:
        if out != want:
            r.violation("boolean-value/completion-order", {"orders": item, "choices": exp.first_schedule_of_outcome[out]}, want, out,
                        f"{expr} under {val}: some completion orders of the evaluate_<key> coroutines give another result")
    r.sample({"expr": expr, "fc": val, "schedules": exp.schedules})
    return r


def replay(case):
    if case.get("versions"):
        from mc import impl_modes as M

        X.init()
        try:
            return check_versions(case["expr"], case["versions"][0], case["versions"][1])
        finally:
            M.restore()
    if "orders" in case:
        vloop, factory, observe, want, expr, val = _orders_setup(case["orders"])
        out = observe(vloop.run_schedule(factory, case["choices"]))
        return [] if out == want else [{"kind": "boolean-value/completion-order", "case": case, "expected": want, "observed": out}]
    if case.get("mode"):
        from mc import impl_modes as M

        try:
            return check_expr_mode(case["expr"], case["mode"], case.get("fc"))[0]
        finally:
            M.restore()
    if case.get("builtin"):
        return check_builtin(case["expr"], case["text"], case["fc"])
    if case.get("empty"):
        return run_item({"fam": "empty", "seed": 0}).violations
    return check_expr(case["expr"], case.get("fc"))[0]
