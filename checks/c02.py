"""C02 — the parsers accept exactly the documented language; everything else is a SyntaxError (E1, R2 + R5, I2)."""
import itertools

from mc.enum import surface as S
from mc.ref import ahbsplit as R5
from mc.ref import condparse as R2
from mc.runner import Result

ID = "C02"
TITLE = "Parsers accept exactly the documented language; all else is a SyntaxError"
ENGINE = "e1-bounded-enumeration"

CHARS = ["[", "]", "(", ")", "0", "1", "P", "U", "X", ".", "B", " ", "M", "u", "∧", "b", "\n"]
TOKENS = ["[1]", "[23P]", "[4P0..1]", "[UB1]", "(", ")", "U", "o", "⊻", " ", "[", "]", "Muss", "K", "x", "Soll", "\t\n"]
# near-miss atoms substituted for an atom of a well-formed expression (the reference decides which of them are legal)
NEAR_ATOMS = ["[1p]", "[ub1]", "[Ub2]", "[UB4]", "[UB0]", "[UB]", "[ 1 ]", "[1 2]", "[1 P]", "[UB 1]", "[U B1]", "[1P0 ..1]",
              "[1P0.. 1]", "[1P 0..1]", "[1P0..0]", "[1P0..01]", "[1P..1]", "[1P0.1]", "[1P0...1]", "[1P1..]", "[P]", "[]",
              "[ ]", "[1", "1]", "[[1]]", "[1].", "[-1]", "[+1]", "[1.0]", "[1,2]", "[0]", "[007]", "[1P2P]", "[1PP]", "[1P0..1P]",
              "[UB1P]", "[1UB1]", "{1}", "<1>", "[1]]", "[[1]", "[1a]", "[a]", "[M]", "[1]P", "[x]", "[1 ]", "()", "([1]",
              "[1])", ")[1](", "([1])", "(([1]))", "[1]()", "()[1]"]
EDIT_TOKENS = ["[9]", "(", ")", "U", "O", "X", "∨", " ", "\n", "\r\n\t", "\f", "Muss", "K", "["]
SPECIAL = ["", " ", "\t", "\n", "\x00", "\ud800", "[1]\x00", "\x00[1]", "(" * 400, ")" * 400, "[" * 400, "(" * 30 + "[1]" + ")" * 30,
           "(" * 30 + "[1]" + ")" * 29, "[1]" * 40, "[1]U" * 40, "Muss" * 10, "Muss [1]" * 6, "﻿[1]", "[1] U[2]",
           "[１]", "[1] U[2]", "Muss [1]", "ſoll [1]", "Muß [1]", "[1] ∪ [2]", "[1] V [2]", "[1] & [2]", "[1] | [2]",
           "[1] und [2]", "[1] AND [2]", "[1] UU [2]", "[1] U U [2]", "U", "X", "O", "M", "Muss", "muss", "MUSS", "mUsS", "Mus",
           "Mu", "Mus[2]", "Muss[1]Kann", "Muss[1]Kann ", "Muss [1] X", "Kann[1]X", "X[1]X[2]", "XX[1]", "X X [1]", "Muss Muss [1]",
           "Muss [1] Muss", "[1] Muss", "Muss[1]U", "Muss[1]U[2]", "Muss[1]u[2]Soll[3]", "Muss [UB1]", "X [1P]", "Muss ([1]",
           "Muss [1])", "Muss []", "Muss [1] Soll", "Muss [1] Soll ", " Muss [1]", "Muss", "Muss ", " Muss", "M[1]S[2]K[3]",
           "M [1] S [2] K", "m[1]", "k", "K[1]K", "Kann Kann", "KannKann", "XO", "X O", "U U", "UB1", "[UB1]", "U[UB1]", "Soll[UB3]U[1]"]

BOUNDS = {"quick": {"char_len": 4, "tok_len": 3, "edit_n": 3, "edit_nq": [[1, 0], [1, 1], [2, 0], [2, 1], [3, 0]]},
          "thorough": {"char_len": 5, "tok_len": 5, "edit_n": 4,
                       "edit_nq": [[1, 0], [1, 1], [2, 0], [2, 1], [3, 0], [3, 1], [4, 0], [4, 1]]}}


def describe(tier):
    b = BOUNDS[tier]
    return {
        "rule": f"(a) ALL strings over the {len(CHARS)}-character alphabet {''.join(CHARS)!r} up to length {b['char_len']}; (b) ALL sequences over "
                f"the {len(TOKENS)}-token alphabet {TOKENS} up to length {b['tok_len']}; (c) every well-formed expression with (atoms, bracket pairs) in {b['edit_nq']} "
                f" (also wrapped as 'Muss e', 'X e', 'Muss e Kann') with each atom replaced by each of {len(NEAR_ATOMS)} near-miss "
                "atoms and every edit-distance-1 neighbour on the lexical-token level (delete / duplicate / substitute / insert); (d) a fixed list "
                "of type-confusing strings; (e) every indicator spelling at edit distance <= 1 of the documented ones (alone, followed by "
                "condition expressions, as second part, as bare final mark); (f) every atom spelling at character edit distance <= 1 of [1] [12P] [1P0..1] "
                "[UB1] [UB3] over an alphabet that also contains the operator symbols, braces and a few Unicode compatibility characters, alone "
                "and embedded in condition / AHB expressions. Each string goes through all four entry points; oracle: condition parser accepts <=> reference "
                "recogniser R2 accepts, else exactly SyntaxError; AHB parser: tree (whose tokens add up to the input, modulo whitespace) or SyntaxError; resolver: tree without raw "
                "CONDITION_EXPRESSION token or SyntaxError, MUST accept L_cond + strict AHB forms, MUST reject everything outside L_cond + lenient "
                "AHB forms (I2); is_valid_expression returns (False, message) for every must-reject string. Non-trivial = the string contains at "
                "least one '[' and is not accepted by R2 as-is, or is accepted with >= 2 atoms.",
        "bounds": b,
        "exhaustive": True,
        "assumptions": ["I2: between the strict and the lenient AHB language either outcome is tolerated, but it must be a tree or SyntaxError",
                        "I7: non-ASCII digits / whitespace only appear in the fixed list (d)"],
    }


INDICATOR_LETTERS = "musolkanxMSK"


def _indicator_edits():
    """every spelling at edit distance <= 1 (substitute / delete / insert one letter of a small alphabet) of the modal mark words
    and of the one-letter indicators, e.g. 'Mann', 'Koll', 'Mus', 'Musss' - the reference decides which are legal"""
    out = set()
    for w in ("Muss", "Soll", "Kann", "muss", "KANN", "M", "s", "K", "X", "o", "u"):
        out.add(w)
        for i in range(len(w) + 1):
            for c in INDICATOR_LETTERS:
                out.add(w[:i] + c + w[i:])
                if i < len(w):
                    out.add(w[:i] + c + w[i + 1:])
            if i < len(w):
                out.add(w[:i] + w[i + 1:])
    return sorted(out)


ATOM_EDIT_BASES = ["[1]", "[12P]", "[1P0..1]", "[UB1]", "[UB3]"]
ATOM_EDIT_CHARS = CHARS + ["∨", "⊻", "O", "o", "x", "2", "3", "4", "p", ",", "-", "{", "}", "²", "Ⅹ", "［", "‥", "\u00a0"]
# (no Unicode DECIMAL digit such as '１' here: by I7 look-alike digits are outside every alphabet - lark's INT is ASCII, but the
#  REPEATABILITY terminal uses \d, and whether '[1P0..１]' is "malformed" is not something the statement decides)


def _atom_char_edits():
    """every atom spelling at CHARACTER edit distance 1 (substitute / insert / delete) of the documented atom forms"""
    out = set()
    for a in ATOM_EDIT_BASES:
        for i in range(len(a) + 1):
            for c in ATOM_EDIT_CHARS:
                out.add(a[:i] + c + a[i:])
                if i < len(a):
                    out.add(a[:i] + c + a[i + 1:])
            if i < len(a):
                out.add(a[:i] + a[i + 1:])
    return sorted(out)


def plan(tier, seed):
    b = BOUNDS[tier]
    items = [{"fam": "special"}, {"fam": "atomedits", "part": 0}, {"fam": "atomedits", "part": 1}, {"fam": "atomedits", "part": 2},
             {"fam": "atomedits", "part": 3}, {"fam": "indicators", "part": 0}, {"fam": "indicators", "part": 1}, {"fam": "indicators", "part": 2},
             {"fam": "indicators", "part": 3}]
    for L in range(1, b["char_len"] + 1):
        if L <= 2:
            items.append({"fam": "chars", "len": L, "pre": []})
        else:
            k = 2 if L <= 4 else 3
            for pre in itertools.product(range(len(CHARS)), repeat=k):
                items.append({"fam": "chars", "len": L, "pre": list(pre)})
    for L in range(1, b["tok_len"] + 1):
        if L <= 2:
            items.append({"fam": "toks", "len": L, "pre": []})
        else:
            k = 2 if L <= 4 else 3
            for pre in itertools.product(range(len(TOKENS)), repeat=k):
                items.append({"fam": "toks", "len": L, "pre": list(pre)})
    for n, q in b["edit_nq"]:
        tmpl = S.exprs_exact(n, q)
        chunk = 1 if n <= 2 else 4
        for k in range(0, len(tmpl), chunk):
            items.append({"fam": "edit", "n": n, "q": q, "lo": k, "hi": min(len(tmpl), k + chunk)})
    return items


_impl = None


def worker_init():
    global _impl
    from mc import impl

    impl.setup()
    _impl = impl


def _has_raw_condition(t):
    if isinstance(t, tuple):
        if t and t[0] == "%CONDITION_EXPRESSION":
            return True
        return any(_has_raw_condition(c) for c in t[1:])
    return False


def _token_concat(t):
    if isinstance(t, tuple):
        if t and isinstance(t[0], str) and t[0].startswith("%"):
            return t[1]
        return "".join(_token_concat(c) for c in t[1:])
    return ""


def check_string(s):
    if _impl is None:
        worker_init()
    I = _impl
    out = []
    case = {"s": s}
    in_cond = R2.accepts(s)
    strict = R5.strict_accepts(s)
    lenient = strict or R5.lenient_accepts(s)
    must_accept = in_cond or strict
    must_reject = (not in_cond) and (not lenient)

    def v(kind, expected, observed, msg=""):
        out.append({"kind": kind, "case": case, "expected": expected, "observed": observed, "msg": msg or repr(s)})

    # 1. condition-expression parser
    r = I.try_call(I.parse_condition_expression_to_tree, s)
    if r[0] == "ok":
        if not in_cond:
            v("cond-parser-accepts-malformed", "SyntaxError", repr(I.tree_to_tuple(r[1]))[:300])
    else:
        if not isinstance(r[2], SyntaxError):
            v("cond-parser-other-exception", "SyntaxError" if not in_cond else "a tree", r[1])
        elif in_cond:
            v("cond-parser-rejects-wellformed", "a tree", r[1])
    # 2. AHB-expression parser
    r = I.try_call(I.parse_ahb_expression_to_single_requirement_indicator_expressions, s)
    if r[0] == "ok":
        cat = _token_concat(I.tree_to_tuple(r[1]))
        if "".join(cat.split()) != "".join(s.split()):  # whitespace is insignificant: a parser may or may not keep it in its tokens
            v("ahb-parser-lossy", s, cat, "the parts of the split do not add up to the input")
    else:
        if not isinstance(r[2], SyntaxError):
            v("ahb-parser-other-exception", "SyntaxError or a tree", r[1])
    # 3. resolver with default flags
    r = I.try_call(lambda: I.run(I.parse_expression_including_unresolved_subexpressions(s), I.Env()))
    if r[0] == "ok":
        t = I.tree_to_tuple(r[1])
        if must_reject:
            v("resolver-accepts-malformed", "SyntaxError", repr(t)[:300])
        elif _has_raw_condition(t):
            v("resolver-raw-condition", "condition expressions parsed", repr(t)[:300])
    else:
        if not isinstance(r[2], SyntaxError):
            v("resolver-other-exception", "SyntaxError or a tree", r[1])
        elif must_accept:
            v("resolver-rejects-wellformed", "a tree", r[1],
              f"{s!r} is {'a well-formed condition expression' if in_cond else 'a documented AHB expression form'}")
    # 4. validity check on malformed input
    if must_reject:
        r = I.try_call(lambda: I.run(I.is_valid_expression(s, lambda cer: None), I.Env()))
        if r[0] == "exc":
            v("validity-raised", "(False, message)", r[1])
        else:
            res = r[1]
            if not (isinstance(res, tuple) and len(res) == 2 and res[0] is False and isinstance(res[1], str) and res[1]):
                v("validity-accepts-malformed", "(False, message)", repr(res)[:200])
    return out, (in_cond, strict, lenient)


def _do(r, s, fam):
    vs, (in_cond, strict, lenient) = check_string(s)
    r.evaluations += 1
    r.states += 1
    r.transitions += 4 if (not in_cond and not lenient) else 3
    r.traces += 1
    if ("[" in s and not in_cond) or (in_cond and s.count("[") >= 2):
        r.nontrivial += 1
    r.stat("in_L_cond" if in_cond else ("strict_ahb" if strict else ("lenient_only" if lenient else "must_reject")))
    for x in vs:
        r.violation(x["kind"], x["case"], x["expected"], x["observed"], x["msg"])
    r.sample({"s": s, "fam": fam, "class": "L_cond" if in_cond else ("strict" if strict else ("lenient" if lenient else "reject"))})


def _edits(s):
    toks = S.lexical_tokens(s)
    seen = set()
    for i in range(len(toks)):
        cand = ["".join(toks[:i] + toks[i + 1:]), "".join(toks[:i] + [toks[i], toks[i]] + toks[i + 1:])]
        for e in EDIT_TOKENS:
            cand.append("".join(toks[:i] + [e] + toks[i + 1:]))
            cand.append("".join(toks[:i] + [e] + toks[i:]))
        for c in cand:
            if c not in seen:
                seen.add(c)
                yield c
    for e in EDIT_TOKENS:
        c = s + e
        if c not in seen:
            seen.add(c)
            yield c


def run_item(item):
    if _impl is None:
        worker_init()
    r = Result()
    fam = item["fam"]
    if fam == "special":
        for s in SPECIAL:
            _do(r, s, fam)
    elif fam == "atomedits":
        for i, a in enumerate(_atom_char_edits()):
            if i % 4 != item["part"]:
                continue
            for s in (a, "[7] U " + a, a + "[901]", "Muss " + a, "Muss [7] O " + a + " Soll [8]", "x" + a, "Kann[7]" + a + "K"):
                _do(r, s, fam)
    elif fam == "indicators":
        for i, w in enumerate(_indicator_edits()):
            if i % 4 != item["part"]:
                continue
            for s in (w, w + "[1]", w + " [1] U [2]", "Muss [1] " + w + " [2]", "Muss[1]" + w, w + " [1] Kann", w + "{1}"):
                _do(r, s, fam)
    elif fam in ("chars", "toks"):
        alpha = CHARS if fam == "chars" else TOKENS
        pre = "".join(alpha[i] for i in item["pre"])
        for rest in itertools.product(alpha, repeat=item["len"] - len(item["pre"])):
            _do(r, pre + "".join(rest), fam)
    elif fam == "edit":
        for tmpl in S.exprs_exact(item["n"], item["q"])[item["lo"]:item["hi"]]:
            base = S.render(tmpl)
            n = item["n"]
            variants = set()
            for i in range(n):
                for na in NEAR_ATOMS:
                    atoms = [f"[{k + 1}]" for k in range(n)]
                    atoms[i] = na
                    variants.add(S.render(tmpl, atoms=atoms))
            variants.update(_edits(base))
            for s in sorted(variants):
                _do(r, s, "edit")
                if n <= 2:
                    _do(r, "Muss " + s, "edit-ahb")
                    _do(r, "x" + s, "edit-ahb")
                    _do(r, "Soll" + s + "Kann", "edit-ahb")
    return r


def replay(case):
    return check_string(case["s"])[0]
