"""C03 — four-valued condition logic: complete finite domain (4^2 pairs, 4^3 triples per operator)."""
import itertools

from mc.ref import logic4 as R1
from mc.runner import Result

ID = "C03"
TITLE = "Four-valued condition logic obeys its algebraic laws and is sound for UNKNOWN"
ENGINE = "e1-bounded-enumeration"
OPS = ("and", "or", "xor")


def describe(tier):
    return {
        "rule": "complete enumeration of all 4^2 operand pairs and 4^3 operand triples for each of AND/OR/XOR on the real "
                "ConditionFulfilledValue.__and__/__or__/__xor__; oracle = literal reference table R1 (README rows, Boolean "
                "logic, NEUTRAL identity) + commutativity + associativity + totality + UNKNOWN soundness/tightness by brute-force "
                "refinement of every UNKNOWN operand; every pair table is computed a second time in reverse order (no dependence on the call "
                "history) and in 12 child interpreters started with other PYTHONHASHSEEDs, two of them with -O / -OO (no dependence on hash randomisation or on asserts being executed); a case is non-trivial if at least one operand is UNKNOWN or NEUTRAL",
        "bounds": {"pairs_per_operator": 16, "triples_per_operator": 64, "mixed_operator_triples": 9 * 64},
        "exhaustive": True,
        "assumptions": ["the state space {FULFILLED, UNFULFILLED, UNKNOWN, NEUTRAL} is the whole enum (checked)"],
    }


HASHSEEDS = list(range(1, 13))
# interpreter modes of the child interpreters: hash seeds 1-10 plain, 11 with -O (asserts stripped), 12 with -OO (docstrings too)
CHILD_FLAGS = {11: ["-O"], 12: ["-OO"]}


def plan(tier, seed):
    # the tables must not depend on anything but the operand values: not on the call history (second pass, reverse order) and not
    # on the interpreter's string hash randomisation (the pair tables are recomputed in child interpreters with other PYTHONHASHSEEDs)
    return [{"op": o} for o in OPS] + [{"op": "enum"}] + [{"op": "hashseed", "hashseed": h} for h in HASHSEEDS]


def worker_init():
    pass


def _impl():
    from mc import impl

    f = {
        "and": lambda a, b: a & b,
        "or": lambda a, b: a | b,
        "xor": lambda a, b: a ^ b,
    }
    return impl, f


def _apply(impl, f, opname, a, b):
    """returns the state letter or ('exc', name) / ('notmember', repr)"""
    try:
        r = f[opname](impl.STATE[a], impl.STATE[b])
    except BaseException as e:  # totality
        return ("exc", type(e).__name__)
    if not isinstance(r, impl.CFV):
        return ("notmember", repr(r))
    return impl.STATE_NAME[r]


def check_pair(opname, a, b):
    impl, f = _impl()
    out = []
    got = _apply(impl, f, opname, a, b)
    exp = R1.op(opname, a, b)
    case = {"op": opname, "operands": [a, b]}
    if got != exp:
        out.append({"kind": f"table/{opname}", "case": case, "expected": exp, "observed": got,
                    "msg": f"{a} {opname} {b}"})
        return out
    if got != _apply(impl, f, opname, b, a):
        out.append({"kind": f"commutativity/{opname}", "case": case, "expected": got,
                    "observed": _apply(impl, f, opname, b, a), "msg": ""})
    if "?" in (a, b):
        res = {_apply(impl, f, opname, *r) for r in R1.refinements((a, b))}
        if got != "?" and res != {got}:
            out.append({"kind": f"unknown-soundness/{opname}", "case": case, "expected": sorted(map(str, res)), "observed": got, "msg": ""})
        if got == "?" and len(res) < 2:
            out.append({"kind": f"unknown-tightness/{opname}", "case": case, "expected": sorted(map(str, res)), "observed": got, "msg": ""})
    if a in "FU" and b in "FU":
        bexp = "F" if R1.BOOL[opname](a == "F", b == "F") else "U"
        if got != bexp:
            out.append({"kind": f"boolean/{opname}", "case": case, "expected": bexp, "observed": got, "msg": ""})
    return out


def check_triple(op1, op2, a, b, c):
    """(a op1 b) op2 c ; for op1 == op2 also associativity and UNKNOWN soundness/tightness"""
    impl, f = _impl()
    out = []
    case = {"op": [op1, op2], "operands": [a, b, c]}

    def ev(x, y, z):
        ab = _apply(impl, f, op1, x, y)
        if not isinstance(ab, str):
            return ab
        return _apply(impl, f, op2, ab, z)

    got = ev(a, b, c)
    exp = R1.op(op2, R1.op(op1, a, b), c)
    if got != exp:
        out.append({"kind": f"table3/{op1}-{op2}", "case": case, "expected": exp, "observed": got, "msg": ""})
        return out
    if op1 == op2:
        bc = _apply(impl, f, op1, b, c)
        right = _apply(impl, f, op1, a, bc) if isinstance(bc, str) else bc
        if right != got:
            out.append({"kind": f"associativity/{op1}", "case": case, "expected": got, "observed": right, "msg": ""})
        if "?" in (a, b, c):
            res = {ev(*r) for r in R1.refinements((a, b, c))}
            if got != "?" and res != {got}:
                out.append({"kind": f"unknown-soundness3/{op1}", "case": case, "expected": sorted(map(str, res)), "observed": got, "msg": ""})
            if got == "?" and len(res) < 2:
                out.append({"kind": f"unknown-tightness3/{op1}", "case": case, "expected": sorted(map(str, res)), "observed": got, "msg": ""})
    return out


def run_item(item):
    impl, f = _impl()
    r = Result()
    if item["op"] == "enum":
        # the implementation's enum has exactly the four states of the model
        names = sorted(m.name for m in impl.CFV)
        r.evaluations += 1
        r.states += 1
        r.transitions += 1
        r.traces += 1
        if names != ["FULFILLED", "NEUTRAL", "UNFULFILLED", "UNKNOWN"]:
            r.violation("enum-members", {"op": "enum"}, ["FULFILLED", "NEUTRAL", "UNFULFILLED", "UNKNOWN"], names)
        r.sample({"enum": names})
        return r
    if item["op"] == "hashseed":
        return _run_hashseed(item, r)
    o = item["op"]
    for a, b in itertools.product(R1.STATES, repeat=2):
        vs = check_pair(o, a, b)
        r.evaluations += 1
        r.states += 1
        r.transitions += 2 + (len(R1.refinements((a, b))) if "?" in (a, b) else 0)
        r.traces += 1
        if "?" in (a, b) or "N" in (a, b):
            r.nontrivial += 1
        r.outcomes.add((o, a, b, str(_apply(impl, f, o, a, b))))
        for v in vs:
            r.violation(v["kind"], v["case"], v["expected"], v["observed"], v["msg"])
        r.sample({"op": o, "operands": [a, b], "result": _apply(impl, f, o, a, b)}, limit=2)
    for a, b, rr in R1.README_ROWS[o]:
        r.evaluations += 1
        r.transitions += 1
        got = _apply(impl, f, o, a, b)
        if got != rr:
            r.violation(f"readme-row/{o}", {"op": o, "operands": [a, b], "readme": True}, rr, got)
    for o2 in OPS:
        for a, b, c in itertools.product(R1.STATES, repeat=3):
            vs = check_triple(o, o2, a, b, c)
            r.evaluations += 1
            r.states += 1
            r.transitions += 2
            r.traces += 1
            if "?" in (a, b, c) or "N" in (a, b, c):
                r.nontrivial += 1
            for v in vs:
                r.violation(v["kind"], v["case"], v["expected"], v["observed"], v["msg"])
    # second pass over the pairs, in reverse order: the result must not depend on what was computed before
    for a, b in reversed(list(itertools.product(R1.STATES, repeat=2))):
        got = _apply(impl, f, o, a, b)
        r.evaluations += 1
        r.transitions += 1
        if got != R1.op(o, a, b):
            r.violation(f"history-dependent/{o}", {"op": o, "operands": [a, b], "second_pass": True}, R1.op(o, a, b), got,
                        f"{a} {o} {b} after all other combinations had been evaluated")
    r.sample({"op": [o, "xor"], "operands": ["?", "N", "F"], "result": R1.op("xor", R1.op(o, "?", "N"), "F")}, limit=3)
    return r


_CHILD = """
import sys, json, logging
sys.path.insert(0, sys.argv[1]); logging.disable(logging.CRITICAL)
import ahbicht.content_evaluation
from ahbicht.models.condition_nodes import ConditionFulfilledValue as V
S = {"F": V.FULFILLED, "U": V.UNFULFILLED, "?": V.UNKNOWN, "N": V.NEUTRAL}
N = {v: k for k, v in S.items()}
out = {}
for name, fn in (("and", lambda a, b: a & b), ("or", lambda a, b: a | b), ("xor", lambda a, b: a ^ b)):
    for a in S:
        for b in S:
            try:
                res = fn(S[a], S[b]); out[name + a + b] = N.get(res, repr(res))
            except BaseException as e:
                out[name + a + b] = "exc:" + type(e).__name__
print(json.dumps(out))
"""


def _child_tables(hashseed):
    import json
    import os
    import subprocess
    import sys

    src = os.environ.get("VERIF_REPO", "/repo") + "/src"
    p = subprocess.run([sys.executable, "-W", "ignore"] + CHILD_FLAGS.get(hashseed, []) + ["-c", _CHILD, src], capture_output=True, text=True,
                       env=dict(os.environ, PYTHONHASHSEED=str(hashseed)), timeout=120)
    if p.returncode != 0:
        raise RuntimeError("child interpreter failed: " + p.stderr[-300:])
    return json.loads(p.stdout)


def _run_hashseed(item, r):
    tables = _child_tables(item["hashseed"])
    for o in OPS:
        for a, b in itertools.product(R1.STATES, repeat=2):
            got = tables[o + a + b]
            r.evaluations += 1
            r.states += 1
            r.transitions += 1
            r.traces += 1
            r.nontrivial += 1
            if got != R1.op(o, a, b):
                r.violation(f"table/{o}/hashseed", {"op": o, "operands": [a, b], "hashseed": item["hashseed"]}, R1.op(o, a, b), got,
                            f"{a} {o} {b} in an interpreter started with PYTHONHASHSEED={item['hashseed']}")
    r.sample({"hashseed": item["hashseed"], "tables": "3 x 16 cells"})
    return r


def replay(case):
    if "hashseed" in case:
        got = _child_tables(case["hashseed"])[case["op"] + case["operands"][0] + case["operands"][1]]
        exp = R1.op(case["op"], *case["operands"])
        return [] if got == exp else [{"kind": f"table/{case['op']}/hashseed", "case": case, "expected": exp, "observed": got}]
    if case.get("second_pass"):
        vs = run_item({"op": case["op"]}).violations
        return [v for v in vs if v["kind"].startswith("history-dependent")]
    if case.get("op") == "enum":
        return run_item({"op": "enum"}).violations
    if case.get("readme"):
        impl, f = _impl()
        got = _apply(impl, f, case["op"], *case["operands"])
        exp = [x for x in R1.README_ROWS[case["op"]] if list(x[:2]) == case["operands"]][0][2]
        return [] if got == exp else [{"kind": f"readme-row/{case['op']}", "case": case, "expected": exp, "observed": got}]
    if isinstance(case["op"], list):
        return check_triple(case["op"][0], case["op"][1], *case["operands"])
    return check_pair(case["op"], *case["operands"])
