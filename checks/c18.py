"""C18 — key extraction partitions keys by range; all possible evaluations are enumerated (E1, R8)."""
import itertools

from mc.enum import surface as S
from mc.ref import condparse as R2
from mc.ref import keys as R8
from mc.ref import subst as R6
from mc.runner import Result

ID = "C18"
TITLE = "Key extraction partitions keys by range; all possible evaluations enumerated"
ENGINE = "e1-bounded-enumeration"

ATOMS = ["[1]", "[499]", "[500]", "[900]", "[901]", "[2P]", "[7P0..1]", "[UB1]", "[UB3]", "[2000]", "[0012]", "[12]"]
PACKAGES = {"2P": "[3] U [600] U [950]", "7P": "[2499] O [12][999]"}
# second table: abbreviations (time conditions) that come in WITH a package
PACKAGES_UB = {"2P": "[UB1] U [3]", "7P": "[600] O [UB3][999]"}
TABLES = [PACKAGES, PACKAGES_UB]
FLAGS = [(False, False), (True, False), (False, True), (True, True)]
BOUNDS = {"quick": {"expr_n": 2, "gen_m": 4, "gen_n": 4, "gen_cap": 6000}, "thorough": {"expr_n": 3, "gen_m": 6, "gen_n": 6, "gen_cap": 50000}}


def describe(tier):
    b = BOUNDS[tier]
    return {
        "rule": "(a) every key number 0..3000 plus 9999, 10000 and leading-zero forms through extract_categorized_keys('[k]') and "
                f"derive_condition_node_type; (b) every well-formed expression with <= {b['expr_n']} atoms (<= 1 bracket pair) over the 12 atoms "
                + " ".join(ATOMS) + " x 4 flag combinations (resolve_packages, replace_time_conditions), "
                f"expressions with a package also under a second package table whose packages contain time conditions ({PACKAGES_UB}); (c) all ordered pairs (e1, e2) of "
                "1-atom/2-atom expressions for extract(e1 op e2) == extract(e1) + extract(e2); (d) "
                f"generate_possible_content_evaluation_results for ALL (m, n) with m <= {b['gen_m']} requirement keys, n <= {b['gen_n']} format "
                f"keys and 3^m*2^n <= {b['gen_cap']}, key lists in ascending AND in every rotated/reversed order. Oracle: category = literal "
                "range table R8 or rejection; lists sorted by int, duplicate-free, pairwise disjoint, union = keys of the textually "
                "substituted expression (R6+R2); generated list as multiset == Cartesian product {F,U,UNKNOWN}^m x {True,False}^n, each "
                "once, none NEUTRAL; (0,0) => []; a second call on the same instance after the caller emptied the returned list gives the full list again, a third one "
                "after a key was removed from the public key list reflects that. Non-trivial = keys at a range boundary / expressions with >= 2 key categories / "
                "(m,n) with m,n >= 1.",
        "bounds": b,
        "exhaustive": True,
        "assumptions": ["package keys and time condition keys are compared as sets (the statement orders condition keys only)"],
    }


def plan(tier, seed):
    b = BOUNDS[tier]
    items = [{"fam": "keys", "lo": lo, "hi": min(lo + 200, 3001)} for lo in range(0, 3001, 200)]
    items.append({"fam": "keys-extra"})
    parts = 32 if tier == "quick" else 256
    for p in range(parts):
        items.append({"fam": "expr", "n": b["expr_n"], "part": p, "parts": parts})
    for p in range(16):
        items.append({"fam": "compose", "part": p, "parts": 16})
    for m in range(0, b["gen_m"] + 1):
        for n in range(0, b["gen_n"] + 1):
            if 3 ** m * 2 ** n <= b["gen_cap"]:
                items.append({"fam": "gen", "m": m, "n": n})
    return items


_I = None


def worker_init():
    global _I
    from mc import impl

    impl.setup()
    _I = impl


def _extract(expr, fp=False, ft=False, table=0):
    I = _I
    r = I.try_call(lambda: I.run(I.extract_categorized_keys(expr, resolve_packages=fp, replace_time_conditions=ft),
                                 I.Env(packages=TABLES[table])))
    if r[0] == "exc":
        return ("exc", r[1])
    x = r[1]
    return ("ok", {"rc": list(x.requirement_constraint_keys), "hint": list(x.hint_keys), "fc": list(x.format_constraint_keys),
                   "pkg": list(x.package_keys), "time": list(x.time_condition_keys)}, x)


def _expected(expr, fp, ft, table=0):
    """expected category lists from the textually substituted string (reference parser), or 'reject'"""
    sub = R6.substitute(expr, TABLES[table], fp, ft)
    leaves = R2.leaves(R2.parse(sub))
    exp = {"rc": set(), "hint": set(), "fc": set(), "pkg": set(), "time": set()}
    for lf in leaves:
        if lf[0] == "cond":
            try:
                exp[R8.category(lf[1])].add(lf[1])
            except R8.OutOfRange:
                return "reject"
        elif lf[0] == "pkg":
            exp["pkg"].add(lf[1])
        else:
            exp["time"].add(lf[1])
    return exp


def check_key(k):
    if _I is None:
        worker_init()
    out = []
    case = {"key": k}
    try:
        exp = R8.category(k)
    except R8.OutOfRange:
        exp = "reject"
    r = _extract(f"[{k}]")
    if exp == "reject":
        if r[0] == "ok":
            out.append({"kind": "out-of-range-key-accepted", "case": case, "expected": "rejected", "observed": r[1], "msg": k})
    else:
        want = {"rc": [], "hint": [], "fc": [], "pkg": [], "time": []}
        want[exp] = [k]
        if r[0] == "exc":
            out.append({"kind": "key-rejected", "case": case, "expected": want, "observed": r[1], "msg": k})
        elif r[1] != want:
            out.append({"kind": "key-category", "case": case, "expected": want, "observed": r[1], "msg": f"key {k} must be {exp}"})
    return out


def check_expr(expr, fp, ft, table=0):
    if _I is None:
        worker_init()
    out = []
    case = {"expr": expr, "resolve_packages": fp, "replace_time_conditions": ft, "table": table}
    exp = _expected(expr, fp, ft, table)
    r = _extract(expr, fp, ft, table)
    if exp == "reject":
        if r[0] == "ok":
            out.append({"kind": "out-of-range-key-accepted", "case": case, "expected": "rejected", "observed": r[1], "msg": expr})
        return out
    if r[0] == "exc":
        out.append({"kind": "extraction-raised", "case": case, "expected": {k: sorted(v) for k, v in exp.items()}, "observed": r[1], "msg": expr})
        return out
    got = r[1]
    for cat in ("rc", "hint", "fc"):
        if set(got[cat]) != exp[cat] or len(set(got[cat])) != len(got[cat]) or \
                [int(k) for k in got[cat]] != sorted(int(k) for k in got[cat]):  # ties ('12', '0012') may come in any order
            # distinguishes wrong membership / duplicates / wrong order
            kind = "key-lists/membership" if set(got[cat]) != exp[cat] else ("key-lists/duplicates" if len(set(got[cat])) != len(got[cat])
                                                                              else "key-lists/order")
            out.append({"kind": kind, "case": case, "expected": {c: sorted(exp[c], key=int) for c in ("rc", "hint", "fc")},
                        "observed": got, "msg": f"{expr}: {cat} keys"})
            break
    for cat in ("pkg", "time"):
        if set(got[cat]) != exp[cat] or len(set(got[cat])) != len(got[cat]):
            out.append({"kind": "key-lists/" + cat, "case": case, "expected": sorted(exp[cat]), "observed": got[cat], "msg": expr})
    return out


def check_compose(e1, e2, op):
    if _I is None:
        worker_init()
    out = []
    expr = f"{e1} {op} {e2}" if op else f"({e1})({e2})"
    case = {"e1": e1, "e2": e2, "op": op}
    a, b, c = _extract(e1), _extract(e2), _extract(expr)
    if "exc" in (a[0], b[0], c[0]):
        if not (c[0] == "exc" and "exc" in (a[0], b[0])) and not (c[0] == "ok" and a[0] == "ok" and b[0] == "ok"):
            out.append({"kind": "compose-rejection-differs", "case": case, "expected": [a[0], b[0]], "observed": c[0], "msg": expr})
        return out
    summed = a[2] + b[2]
    again = a[2] + b[2]  # summands must be left untouched: adding the same two extracts again gives the same sum ...
    fresh_a = _extract(e1)  # ... and the left summand still equals a fresh extract of its expression
    if again != summed or (fresh_a[0] == "ok" and fresh_a[2] != a[2]):
        out.append({"kind": "summand-mutated-by-add", "case": case, "expected": repr(fresh_a[2])[:300], "observed": repr(a[2])[:300],
                    "msg": f"extract({e1}) + extract({e2}) changed a summand"})
    s = {"rc": list(summed.requirement_constraint_keys), "hint": list(summed.hint_keys), "fc": list(summed.format_constraint_keys),
         "pkg": sorted(summed.package_keys), "time": sorted(summed.time_condition_keys)}
    whole = dict(c[1], pkg=sorted(c[1]["pkg"]), time=sorted(c[1]["time"]))
    for cat in ("rc", "hint", "fc"):
        for d in (s, whole):
            if [int(k) for k in d[cat]] != sorted(int(k) for k in d[cat]):
                out.append({"kind": "key-lists/order", "case": case, "expected": "ascending", "observed": d[cat], "msg": expr})
            d[cat] = sorted(d[cat], key=lambda k: (int(k), k))  # numerically equal keys ('12', '0012') may come in any order
    if s != whole:
        out.append({"kind": "extract-not-additive", "case": case, "expected": whole, "observed": s,
                    "msg": f"extract({expr}) != extract({e1}) + extract({e2})"})
    return out


def check_gen(rc_keys, fc_keys):
    if _I is None:
        worker_init()
    I = _I
    from ahbicht.models.categorized_key_extract import CategorizedKeyExtract  # the class under test

    out = []
    case = {"rc_keys": rc_keys, "fc_keys": fc_keys}
    x = CategorizedKeyExtract(hint_keys=["501"], format_constraint_keys=list(fc_keys), requirement_constraint_keys=list(rc_keys),
                              package_keys=[], time_condition_keys=[])
    r = I.try_call(x.generate_possible_content_evaluation_results)
    if r[0] == "exc":
        return [{"kind": "generation-raised", "case": case, "expected": "a list", "observed": r[1], "msg": ""}], 0
    got = []
    for cer in r[1]:
        rc = tuple(sorted((k, I.STATE_NAME[v]) for k, v in cer.requirement_constraints.items()))
        fc = tuple(sorted((k, v.format_constraint_fulfilled) for k, v in cer.format_constraints.items()))
        got.append((rc, fc))
    if not rc_keys and not fc_keys:
        exp = []
    else:
        exp = []
        for rv in itertools.product(("F", "U", "?"), repeat=len(rc_keys)):
            for fv in itertools.product((True, False), repeat=len(fc_keys)):
                exp.append((tuple(sorted(zip(rc_keys, rv))), tuple(sorted(zip(fc_keys, fv)))))
    # call SEQUENCES on the one instance: the list handed out is the caller's (emptying it must not affect the next call), and the
    # key lists are public attributes (the next call reflects what they hold then)
    if r[1]:
        r[1].clear()
    again = I.try_call(x.generate_possible_content_evaluation_results)
    if again[0] == "exc" or len(again[1]) != len(got):
        out.append({"kind": "generation-depends-on-earlier-call", "case": case, "expected": f"{len(got)} results again",
                    "observed": again[1] if again[0] == "exc" else f"{len(again[1])} results after the caller emptied the first list", "msg": ""})
    if rc_keys:
        x.requirement_constraint_keys = list(rc_keys[:-1])
        fewer = I.try_call(x.generate_possible_content_evaluation_results)
        want = 3 ** (len(rc_keys) - 1) * 2 ** len(fc_keys) if (len(rc_keys) > 1 or fc_keys) else 0
        if fewer[0] == "exc" or len(fewer[1]) != want or any(rc_keys[-1] in c.requirement_constraints for c in fewer[1]):
            out.append({"kind": "generation-depends-on-earlier-call", "case": case, "expected": f"{want} results without key {rc_keys[-1]}",
                        "observed": fewer[1] if fewer[0] == "exc" else f"{len(fewer[1])} results after one requirement key was removed", "msg": ""})
    if sorted(got) != sorted(exp):
        missing = len(set(exp) - set(got))
        dup = len(got) - len(set(got))
        extra = len(set(got) - set(exp))
        out.append({"kind": "cartesian-product", "case": case, "expected": f"{len(exp)} combinations, each once",
                    "observed": f"{len(got)} results: {missing} missing, {dup} duplicates, {extra} foreign (e.g. NEUTRAL / wrong keys)",
                    "msg": ""})
    return out, len(got)


def _orders(keys):
    keys = list(keys)
    seen = []
    for o in [keys, keys[::-1]] + [keys[i:] + keys[:i] for i in range(1, len(keys))]:
        if o not in seen:
            seen.append(o)
    return seen


def run_item(item):
    if _I is None:
        worker_init()
    r = Result()
    fam = item["fam"]

    def acc(vs, nontrivial, sample):
        r.evaluations += 1
        r.states += 1
        r.transitions += 1
        r.traces += 1
        r.nontrivial += 1 if nontrivial else 0
        for v in vs:
            r.violation(v["kind"], v["case"], v["expected"], v["observed"], v["msg"])
        r.sample(sample, limit=2)

    if fam == "keys":
        for k in range(item["lo"], item["hi"]):
            acc(check_key(str(k)), k in (0, 1, 499, 500, 900, 901, 999, 1000, 1999, 2000, 2499, 2500), {"key": str(k)})
    elif fam == "keys-extra":
        for k in ["9999", "10000", "00", "000", "01", "007", "0499", "0500", "0900", "0901", "0999", "01000", "02000", "02499",
                  "02500", "99999999999999999999", "2499", "2500", "1999", "2000"]:
            acc(check_key(k), True, {"key": k})
    elif fam == "expr":
        i = -1
        for n in range(1, item["n"] + 1):
            for q in (0, 1):
                for tmpl in S.exprs_exact(n, q):
                    for atoms in itertools.product(ATOMS, repeat=n):
                        i += 1
                        if i % item["parts"] != item["part"]:
                            continue
                        expr = S.render(tmpl, atoms=list(atoms))
                        for fp, ft in FLAGS:
                            acc(check_expr(expr, fp, ft), n >= 2, {"expr": expr, "flags": [fp, ft]})
                            if fp and "P" in expr:  # the same with packages that bring time conditions along
                                acc(check_expr(expr, fp, ft, 1), True, {"expr": expr, "flags": [fp, ft], "table": 1})
    elif fam == "compose":
        singles = ATOMS + ["[1] U [500]", "[901][1]", "[2P] O [12]", "[12] X [0012]", "[1000]"]
        i = -1
        for e1 in singles:
            for e2 in singles:
                for op in ("U", "O", "X", "∧", ""):
                    i += 1
                    if i % item["parts"] != item["part"]:
                        continue
                    acc(check_compose(e1, e2, op), True, {"e1": e1, "e2": e2, "op": op})
    elif fam == "gen":
        rc = [str(k) for k in [1, 2, 17, 499, 2000, 2499][:item["m"]]]
        fc = [str(k) for k in [901, 902, 950, 999, 931, 977][:item["n"]]]
        for ro in _orders(rc):
            for fo in _orders(fc):
                vs, n = check_gen(ro, fo)
                acc(vs, item["m"] >= 1 and item["n"] >= 1, {"rc_keys": ro, "fc_keys": fo, "generated": n})
                r.transitions += n
    return r


def replay(case):
    if "key" in case:
        return check_key(case["key"])
    if "expr" in case:
        return check_expr(case["expr"], case["resolve_packages"], case["replace_time_conditions"], case.get("table", 0))
    if "e1" in case:
        return check_compose(case["e1"], case["e2"], case["op"])
    return check_gen(case["rc_keys"], case["fc_keys"])[0]
