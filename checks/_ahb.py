"""shared by C13-C17: content evaluation results, labelling menus, own-evaluation cache, comparison helpers"""
import itertools

from mc.enum import ahbtrees as T
from mc.ref import validation as R7

V = None  # mc.impl_validation (lazy)
I = None

PERMS = list(itertools.permutations(("F", "U", "?")))
FC = {"901": (True, None), "902": (False, "msg 902")}
HINTS = {"501": "Hinweis 501", "502": "Hinweis 502"}
PACKAGES = {"1P": "[1] U [2]", "7P": "[3] O [1]"}
INPUTS = [None, "", "x"]
POOL_ENTRIES = [{"q": "A", "expr": "X [1]"}, {"q": "B", "expr": "X [2]"}]
POOL_INPUTS = [None, "A", "B", "ZZ", ""]

# labelling classes for small-scope trees (under CER 0: 1 = FULFILLED, 2 = UNFULFILLED, 3 = UNKNOWN)
CLASSES4 = ["Muss [1]", "Muss [2]", "Kann [1]", "Soll [1]"]
CLASSES3 = ["Muss [1]", "Muss [2]", "Soll [1]"]
CHAIN_MENU = ["Muss [1]", "Muss [2]", "Muss [3]", "Soll [1]", "Soll [3]", "Kann [2]", "Kann [3]", "X [1] U [501]"]
RICH_MENU = ["Muss [1P]", "Soll [7P] U [501]", "Muss [2] Kann [1][901]", "X [1][902]", "M[2]S[1]U[502]K", "Kann [501]", "Soll [1] U [UB1]",
             "Muss [1] X [2]", "o[1]", "Muss ([1] O [2])[901] U [502]", "Soll [2] Soll [1]", "S[3]K[1]"]


def init():
    global V, I
    if V is None:
        from mc import impl, impl_validation

        impl.setup()
        I = impl
        V = impl_validation
    return V


def env(cer):
    rc = dict(zip(("1", "2", "3"), PERMS[cer]))
    return I.Env(rc=rc, fc=dict(FC), hints=dict(HINTS), packages=dict(PACKAGES))


_own_cache = {}


def own_for(cer):
    def own(expr, text):
        key = (expr, text, cer)
        if key not in _own_cache:
            _own_cache[key] = V.own_evaluation(expr, text, env(cer))
        return _own_cache[key]

    return own


def model_from(shape, exprs, variant=0):
    """shape + one expression per node (document order) -> AHB model; inputs rotate with the node index"""

    def label(kind, idx, nid):
        if kind == "pool":
            return {"input": POOL_INPUTS[(idx + variant) % len(POOL_INPUTS)], "entries": [dict(e) for e in POOL_ENTRIES],
                    "expr_slot": exprs[idx]}
        d = {"expr": exprs[idx]}
        if kind == "free":
            d["input"] = INPUTS[(idx + variant) % 3]
        return d

    return T.to_model(shape, label)


def expected(groups, cer, soll, parent=None):
    """('ok', list) | ('exc', 'NotImplementedError')"""
    try:
        return ("ok", R7.walk(groups, own_for(cer), soll, parent=parent))
    except R7.ExpectNotImplemented:
        return ("exc", "NotImplementedError")


def compare(groups, cer, soll, got, check_pool_status=False, parent=None):
    """compares an observation of the implementation with R7; returns (kind, expected, observed) or None"""
    exp = expected(groups, cer, soll, parent)
    if exp[0] == "exc" or got[0] == "exc":
        if exp[0] != got[0] or exp[1] != got[1]:
            return ("exception-behaviour", exp[1] if exp[0] == "exc" else "a result list", got[1] if got[0] == "exc" else "a result list")
        return None
    e, g = exp[1], got[1]
    if [x[0] for x in e] != [x["id"] for x in g]:
        eids, gids = [x[0] for x in e], [x["id"] for x in g]
        if sorted(map(repr, eids)) == sorted(map(repr, gids)):  # discriminators may be None
            kind = "document-order"
        elif len(set(gids)) != len(gids) and len(set(eids)) == len(eids):
            kind = "reported-more-than-once"
        else:
            kind = "coverage-or-pruning"
        return (kind, eids, gids)
    for (nid, kind, status, det), o in zip(e, g):
        if kind == "pool":
            if check_pool_status:
                pass
            continue
        if o["status"] != status:
            return ("status", {"id": nid, "status": status}, {"id": nid, "status": o["status"]})
    return None


def explore_validation(groups, cer, soll, order_bound, entry="deep"):
    """E3: validation of `groups` with SUSPENDING requirement / format / hint / package evaluators under all completion orders
    (<= order_bound deviations) on the virtual event loop.  returns (vloop, factory_for, observe, base_json, exploration)"""
    import json

    from checks import c12
    from mc import vloop

    init()
    c12.worker_init()
    rc = dict(zip(("1", "2", "3"), PERMS[cer]))

    def factory_for(zero):
        def factory(sched):
            e = c12._env(sched, rc=rc, fc=dict(FC), hints=dict(HINTS), packages=dict(PACKAGES), yields={"*": 0} if zero else None)

            async def go():
                if entry == "deep":
                    return V.observe(await V.validate_deep_anwendungshandbuch(V.build_ahb(groups), soll))
                return V.observe(await V.validate_segment_level(V.build_ahb(groups).lines[0], soll))

            return c12._with_env(e, go)

        return factory

    def observe(ex):
        if ex.exception is not None:
            return json.dumps(["exc", type(ex.exception).__name__])
        return json.dumps(["ok", ex.result], ensure_ascii=False, default=repr)

    base = observe(vloop.run_schedule(factory_for(True), []))
    exp = vloop.explore(factory_for(False), observe, order_bound=order_bound, early_bound=0) if order_bound != "none" else None
    return vloop, factory_for, observe, base, exp
