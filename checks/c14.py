"""C14 — soll_is_required is equivalent to rewriting SOLL at every level (E1, metamorphic)."""
import itertools

from checks import _ahb as H
from mc.enum import ahbtrees as T
from mc.ref import ahbsplit as R5
from mc.runner import Result

ID = "C14"
TITLE = "soll_is_required is equivalent to rewriting SOLL at every level"
ENGINE = "e1-bounded-enumeration"

MENU5 = ["Muss [1]", "Soll", "Soll [1][902]", "Soll [3]", "Muss [2] S[1]"]
MENU3 = ["Muss [1]", "s", "Soll [3]"]
# multi-part expressions with SOLL in every position of the part list: leading, in the middle, as the trailing BARE mark behind
# conditional parts (deciding when no earlier part is fulfilled; keys: 1 fulfilled, 2 unfulfilled), twice, in the short spelling
MENU_PARTS = ["Muss [1]", "Muss [2] Soll", "Muss [1] Soll", "Soll [2] Kann", "Kann [2] s", "Soll [2] Muss [2] Soll", "Muss [2] Soll [2] Kann [1]",
              "Soll [2] SOLL"]
PARTS_NODES = {"quick": 3, "thorough": 4}
CHAIN_SHAPE = (("G", (("G", (), (("S", ("F",)),)),), ()),)
BOUNDS = {"quick": {"n5": 4, "n3": 4, "cers": 1}, "thorough": {"n5": 5, "n3": 6, "cers": 2}}


def describe(tier):
    b = BOUNDS[tier]
    return {
        "rule": f"every AHB tree shape with <= {b['n5']} nodes x every labelling from {MENU5} (and <= {b['n3']} nodes x {MENU3}; <= {PARTS_NODES[tier]} nodes x the multi-part menu {MENU_PARTS} with SOLL in every position of the part list incl. the trailing bare mark) that contains at "
                "least one SOLL part, value pools with a SOLL entry included; the chain group->group->segment->free text with all 4-long "
                f"sequences from the C13 menu containing SOLL; x {b['cers']} content evaluation results x both flag values. Oracle "
                "(metamorphic): validate(ahb, flag) == validate(ahb with every SOLL rewritten to MUSS if flag else KANN, flag') for BOTH "
                "flag' - the whole result list (status, hints, format result, offered values) or the same exception class; through "
                "validate_deep_anwendungshandbuch, validate_segment_level (root = segment group, and root = the first segment), and validate_segment. The rewriting is done on the reference "
                "split (R5) of each expression. For the chain family also call SEQUENCES in one context (flag False then True; True, False, "
                "True): each run equals its single run; and validations with DIFFERENT flag values in flight at once in one loop (True || False; False || True || False). Non-trivial = trees with SOLL at depth >= 2 (sub group, segment or data element).",
        "bounds": b,
        "exhaustive": True,
        "assumptions": [],
    }


def rewrite(expr, to):
    parts = R5.strict_split(expr)
    if parts is None:
        raise RuntimeError(f"harness error: {expr!r} is not a strict AHB form")
    out = ""
    for text, norm, is_modal, cond in parts:
        if norm == "SOLL":
            text = to if len(text) > 1 else to[0]
        out += text + (cond or "")
    return out


def rewrite_model(groups, to):
    def el(e):
        e = dict(e)
        if e["kind"] == "free":
            e["expr"] = rewrite(e["expr"], to)
        else:
            e["entries"] = [{"q": x["q"], "expr": rewrite(x["expr"], to)} for x in e["entries"]]
        return e

    def seg(s):
        return dict(s, expr=rewrite(s["expr"], to), elements=[el(e) for e in s["elements"]])

    def grp(g):
        return dict(g, expr=rewrite(g["expr"], to), groups=[grp(x) for x in g["groups"]], segments=[seg(x) for x in g["segments"]])

    return [grp(g) for g in groups]


def has_soll(groups):
    from mc.ref import validation as R7

    for n in R7.nodes(groups):
        exprs = [n["expr"]] if n["kind"] != "pool" else [e["expr"] for e in n["entries"]]
        for e in exprs:
            if any(p[1] == "SOLL" for p in R5.strict_split(e)):
                return True
    return False


def plan(tier, seed):
    b = BOUNDS[tier]
    items = []
    for cer in range(b["cers"]):
        for first in range(len(H.CHAIN_MENU)):
            items.append({"fam": "chain", "cer": cer, "first": first})
        for fam, nmax, ncls in (("t5", b["n5"], 5), ("t3", b["n3"], 3)):
            nmin = 1 if fam == "t5" else b["n5"] + 1
            for si, s in enumerate(T.shapes(nmax, nmin)):
                total = ncls ** T.count_nodes(s)
                chunks = max(1, total // 400)
                for c in range(chunks):
                    items.append({"fam": fam, "cer": cer, "shape": si, "nmax": nmax, "nmin": nmin, "lo": c * total // chunks,
                                  "hi": (c + 1) * total // chunks})
        for si, s in enumerate(T.shapes(PARTS_NODES[tier], 1)):
            total = len(MENU_PARTS) ** T.count_nodes(s)
            chunks = max(1, total // 400)
            for c in range(chunks):
                items.append({"fam": "tp", "cer": cer, "shape": si, "nmax": PARTS_NODES[tier], "nmin": 1, "lo": c * total // chunks,
                              "hi": (c + 1) * total // chunks})
    return items


def worker_init():
    H.init()


def check_sequence(shape, exprs, cer, flags, concurrent=False):
    """several validations awaited one after the other in ONE coroutine (one context): each must equal its own single run"""
    H.init()
    I = H.I
    V = H.V
    groups = H.model_from(shape, exprs, 0)
    if not has_soll(groups):
        return None
    out = []

    async def one(f):
        try:
            return ("ok", V.observe(await V.validate_deep_anwendungshandbuch(V.build_ahb(groups), f)))
        except NotImplementedError:
            return ("exc", "NotImplementedError")

    async def seq():
        if concurrent:
            # the validations are IN FLIGHT AT ONCE (tasks of one loop, e.g. a server validating two messages)
            import asyncio

            return list(await asyncio.gather(*[one(f) for f in flags]))
        return [await one(f) for f in flags]

    got = I.try_call(lambda: I.run(seq(), H.env(cer)))
    if got[0] == "exc":
        return [{"kind": "sequence-raised", "case": {"shape": shape, "exprs": list(exprs), "cer": cer, "flags": list(flags)},
                 "expected": "results", "observed": got[1], "msg": ""}]
    for f, g in zip(flags, got[1]):
        single = V.run_validation(groups, H.env(cer), f)
        if g != single:
            out.append({"kind": "flag-vs-rewrite/" + ("concurrent" if concurrent else "sequence"),
                        "case": {"shape": shape, "exprs": list(exprs), "cer": cer, "flags": list(flags), "concurrent": concurrent},
                        "expected": repr(single)[:300], "observed": repr(g)[:300],
                        "msg": f"validations with soll_is_required={list(flags)} in one context: the run with {f} differs from a single run"})
            break
    return out


def _pool_variant(groups, k):
    """give value pools a SOLL entry now and then"""
    from mc.ref import validation as R7

    for n in R7.nodes(groups):
        if n["kind"] == "pool":
            n["entries"] = [{"q": "A", "expr": ["Soll [1]", "X [1]", "S [3]"][k % 3]}, {"q": "B", "expr": ["X [2]", "Soll [2] Kann [1]", "Muss [1]"][k % 3]}]
    return groups


def check_case(shape, exprs, cer, variant=0):
    H.init()
    out = []
    groups = _pool_variant(H.model_from(shape, exprs, variant), variant)
    if not has_soll(groups):
        return None
    entries = ["deep", "segment_level"] + (["segment", "segment_root"] if groups[0]["segments"] else [])
    for flag in (True, False):
        to = "Muss" if flag else "Kann"
        rew = rewrite_model(groups, to)
        for entry in entries:
            # segment_root: validate_segment_level called with the first SEGMENT as the root
            g1, g2 = (groups, rew) if entry != "segment_root" else ([groups[0]["segments"][0]], [rew[0]["segments"][0]])
            a = H.V.run_validation(g1, H.env(cer), flag, entry=entry)
            for flag2 in (True, False):
                b = H.V.run_validation(g2, H.env(cer), flag2, entry=entry)
                if a != b:
                    detail = None
                    if a[0] == "ok" and b[0] == "ok":
                        for x, y in zip(a[1], b[1]):
                            if x != y:
                                detail = (x, y)
                                break
                    out.append({"kind": "flag-vs-rewrite",
                                "case": {"shape": shape, "exprs": list(exprs), "cer": cer, "variant": variant, "flag": flag, "entry": entry},
                                "expected": repr(detail[1] if detail else b)[:300], "observed": repr(detail[0] if detail else a)[:300],
                                "msg": f"soll_is_required={flag} vs SOLL rewritten to {to} (validated with flag {flag2}) via {entry}; exprs={list(exprs)}"})
                    break
    return out


def _depth2_soll(exprs):
    return any("S" in e.upper().replace("MUSS", "") for e in exprs[1:])


def run_item(item):
    H.init()
    r = Result()
    if item["fam"] == "chain":
        shape = CHAIN_SHAPE
        gen = ((H.CHAIN_MENU[item["first"]],) + rest for rest in itertools.product(H.CHAIN_MENU, repeat=3))
        rng = None
    else:
        shape = [s for s in T.shapes(item["nmax"], item["nmin"])][item["shape"]]
        n = T.count_nodes(shape)
        gen = itertools.product({"t5": MENU5, "t3": MENU3, "tp": MENU_PARTS}[item["fam"]], repeat=n)
        rng = (item["lo"], item["hi"])
    for k, exprs in enumerate(gen):
        if rng and not rng[0] <= k < rng[1]:
            continue
        vs = check_case(shape, exprs, item["cer"], variant=k % 3)
        if vs is None:
            r.stat("skipped_no_soll")
            continue
        if item["fam"] == "chain":
            for flags in ((False, True), (True, False, True)):
                vs += check_sequence(shape, exprs, item["cer"], flags) or []
            for flags in ((True, False), (False, True, False)):
                vs += check_sequence(shape, exprs, item["cer"], flags, concurrent=True) or []
        r.evaluations += 1
        r.states += 1
        r.transitions += 12
        r.traces += 1
        if _depth2_soll(exprs):
            r.nontrivial += 1
        for v in vs:
            r.violation(v["kind"], v["case"], v["expected"], v["observed"], v["msg"])
        r.sample({"shape": repr(shape), "exprs": list(exprs)}, limit=2)
    return r


def _tup(x):
    return tuple(_tup(y) for y in x) if isinstance(x, list) else x


def replay(case):
    if "flags" in case:
        return check_sequence(_tup(case["shape"]), case["exprs"], case["cer"], tuple(case["flags"]), case.get("concurrent", False)) or []
    vs = check_case(_tup(case["shape"]), case["exprs"], case["cer"], case.get("variant", 0)) or []
    return vs
