"""helpers shared by C04-C08: key pools, implementation observations of one expression under one assignment"""
import itertools
import random

from mc.enum import asts as A
from mc.ref import keys as R8
from mc.ref import reqeval as R3

I = None


def init():
    global I
    if I is None:
        from mc import impl

        impl.setup()
        I = impl
    return I


def pools(seed):
    """VERIF_SEED only picks the concrete key numbers for the abstract alphabet"""
    if seed == 0:
        # range boundaries early in every pool (restricted-growth labellings use the first k keys of a pool)
        return {"rc": ["1", "2005", "499", "2", "2499", "3"], "hint": ["501", "900", "500", "502", "777", "503"],
                "fc": ["901", "999", "902", "903", "950", "904"]}
    rnd = random.Random(seed)
    rc = [str(rnd.randrange(1, 500)), str(rnd.randrange(2000, 2500))] + [str(x) for x in rnd.sample(range(1, 500), 3)] + [str(rnd.randrange(2000, 2500))]
    rc = list(dict.fromkeys(rc))
    while len(rc) < 6:
        rc.append(str(rnd.randrange(2000, 2500)))
        rc = list(dict.fromkeys(rc))
    hint = [str(x) for x in rnd.sample(range(500, 901), 6)]
    fc = [str(x) for x in rnd.sample([k for k in range(901, 1000) if not 931 <= k <= 935], 6)]
    return {"rc": rc, "hint": hint, "fc": fc}


SPELL = [{"and": "U", "or": "O", "xor": "X"}, {"and": "u", "or": "o", "xor": "x"}, {"and": "∧", "or": "∨", "xor": "⊻"}]


def spelling(seed):
    return SPELL[seed % 3]


def spacing(seed):
    return [" ", "", "  "][(seed // 3) % 3]


def render(ast, seed):
    return A.render(ast, spell=spelling(seed), sp=spacing(seed))


def assignments(keys, states=("F", "U", "?")):
    for vals in itertools.product(states, repeat=len(keys)):
        yield dict(zip(keys, vals))


def parse(expr):
    """('ok', T, TT) or ('exc', name)"""
    init()
    r = I.try_call(I.parse_condition_expression_to_tree, expr)
    if r[0] == "exc":
        return ("exc", r[1])
    return ("ok", r[1], I.tree_to_tuple(r[1]))


def hint_text(k):
    """the text of hint k in the harness environments: '' (legal) for every second key"""
    return "" if int(k) % 2 == 0 else f"Hinweis {k}"


def input_nodes(tt, assign):
    nodes = {}
    for k in R3.keys_of(tt):
        c = R8.category(k)
        # every second node is an instance of a user SUBCLASS of the node class; hint texts may be empty
        odd = (int(k) % 3 == 0) if c == "hint" else (int(k) % 2 == 1 and int(k) > 100)  # mixes both among the first keys of the pools
        if c == "rc":
            nodes[k] = (I.UserRequirementConstraint if odd else I.RequirementConstraint)(condition_key=k, conditions_fulfilled=I.STATE[assign[k]])
        elif c == "hint":
            nodes[k] = (I.UserHint if odd else I.Hint)(condition_key=k, hint=hint_text(k))
        else:
            nodes[k] = I.UnevaluatedFormatConstraint(condition_key=k)
    return nodes


def eval_tree(T, tt, assign):
    """synchronous transformer entry point -> ('ok', state letter, fc expression, hint) | ('exc', name)"""
    r = I.try_call(I.evaluate_requirement_constraint_tree, T, input_nodes(tt, assign))
    if r[0] == "exc":
        return ("exc", r[1])
    node = r[1]
    fcx = getattr(node, "format_constraints_expression", None)
    return ("ok", I.STATE_NAME[node.conditions_fulfilled], fcx, getattr(node, "hint", None))


async def _no_yield(kind, key):
    return None


def env_for(tt, assign, fc=None):
    """some requirement keys (mc.impl.sync_subset: every second key of the expression) are answered by SYNCHRONOUS evaluate methods, the others by coroutine methods
    (that never suspend): user evaluators may mix both kinds"""
    hints = {k: hint_text(k) for k in R3.keys_of(tt, "hint")}
    sync = {("rc", k) for k in I.sync_subset(assign)} | {("fc", k) for k in I.sync_subset(fc or {})}
    return I.Env(rc=dict(assign), fc=fc or {}, hints=hints, yielder=_no_yield, sync=sync)


def eval_async(expr_or_tree, tt, assign):
    """requirement_constraint_evaluation through the injected harness evaluators
    -> ('ok', fulfilled, conditional, fc expression, hints) | ('exc', name)"""
    r = I.try_call(lambda: I.run(I.requirement_constraint_evaluation(expr_or_tree), env_for(tt, assign)))
    if r[0] == "exc":
        return ("exc", r[1])
    x = r[1]
    return ("ok", x.requirement_constraints_fulfilled, x.requirement_is_conditional, x.format_constraints_expression, x.hints)


def eval_fc(expr, fcvals, messages=True):
    """format_constraint_evaluation(expr) under harness FC answers -> ('ok', fulfilled, message) | ('exc', name)"""
    fc = {k: (v, (None if v else (f"msg {k}" if messages else None))) for k, v in fcvals.items()}
    r = I.try_call(lambda: I.run(I.format_constraint_evaluation(expr), I.Env(fc=fc)))
    if r[0] == "exc":
        return ("exc", r[1])
    return ("ok", r[1].format_constraints_fulfilled, r[1].error_message)
