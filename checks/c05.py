"""C05 — hints, format constraints, brackets, operand order never change the requirement; UNKNOWN is monotone
(E1, metamorphic: implementation against itself)."""
import itertools

from checks import _exprs as X
from mc.enum import asts as A
from mc.ref import reqeval as R3
from mc.runner import Result

ID = "C05"
TITLE = "Hints, format constraints, brackets, operand order never change the requirement"
ENGINE = "e1-bounded-enumeration"

BOUNDS = {"quick": [[1, "all"], [2, "all"], [3, "all"]], "thorough": [[1, "all"], [2, "all"], [3, "all"], [4, "all"]]}


def describe(tier):
    return {
        "rule": f"every valid in-domain base expression with (leaves, labelling) in {BOUNDS[tier]}; at EVERY position (root and every operand "
                "of every U/O/X) the transformations  (sub) U [hint],  [hint] U (sub);  at every sub-expression containing an RC  (sub)[fc], "
                "[fc](sub);  at every sub-expression  ((sub));  at every U/O/X node the operand swap;  each transformed expression x ALL 3^k "
                "assignments; plus for every assignment with UNKNOWN whose outcome is definite all 2^u refinements. Oracle (implementation vs "
                "itself): the transformed expression raises nothing and has the same state / (fulfilled) as the base; refinements keep the "
                "definite outcome; the hint transformations (the added hint carrying an EMPTY text) also through the library's shipped "
                "evaluators for bases with <= 2 leaves; bases with <= 2 leaves also with a hints provider whose get_hint_text is a plain function reading context-local data; for bases with 4 leaves and distinct keys (quick tier) the refinement relation only. In addition the transformed expressions mix operator spellings (letter vs symbol), so that 'redundant "
                "brackets' is meant with respect to the documented precedence. Non-trivial = (transformed expression, assignment) pairs "
                "with >= 2 leaves in the base.",
        "bounds": {"sizes": BOUNDS[tier]},
        "exhaustive": True,
        "assumptions": ["the hint / FC key used by a transformation is fresh (not in the base expression)"],
    }


def plan(tier, seed):
    items = []
    if tier == "quick":
        # one size beyond the full transformation bound: UNKNOWN refinement only (no extra expressions to parse), distinct keys
        for p in range(64):
            items.append({"n": 4, "lab": "distinct", "part": p, "parts": 64, "seed": seed, "only": ["refine"]})
    # hint neutrality through the evaluators / providers the library ships; the added hint has an EMPTY text (legal)
    for mode in ("hardcoded", "cer", "methods", "cer-shared", "jsonfile"):
        for n in (1, 2) if tier == "quick" else (1, 2, 3):
            items.append({"fam": "modes", "mode": mode, "n": n, "seed": seed})
    # the same transformations with a hints provider whose get_hint_text is a PLAIN function reading context-local data
    # (HintsProvider.get_hints has a separate code path for it)
    for n in (1, 2):
        items.append({"fam": "synchints", "n": n, "seed": seed})
    # one transformation applied MANY times (sizes far beyond the leaf bound, one linear family per transformation)
    for kind in ITER_KINDS:
        for k in ITER_K[tier]:
            items.append({"fam": "iterated", "kind": kind, "k": k, "seed": seed})
    for n, lab in BOUNDS[tier]:
        parts = {1: 1, 2: 4, 3: 48, 4: 768}[n]
        for p in range(parts):
            items.append({"n": n, "lab": lab, "part": p, "parts": parts, "seed": seed})
    return items


ITER_BASES = ["[1]", "[1] U [2]", "[2] O [1]", "[1] X [2][901]", "([1] O [2]) U [3]"]
ITER_K = {"quick": [2, 3, 5, 8, 9, 10, 11, 12, 16, 17, 24, 33], "thorough": list(range(2, 41)) + [48, 64, 65, 100]}
ITER_KINDS = ["hints-right", "hints-left", "hints-both", "fcs", "brackets", "hints-per-operand"]


def iterated(base, kind, k):
    """the SAME transformation applied k times (k distinct fresh hint keys 501.. / FC keys 902..)"""
    hints = [f"[{501 + i}]" for i in range(k)]
    if kind == "hints-right":
        return f"({base}) U " + " U ".join(hints)
    if kind == "hints-left":
        return " U ".join(hints) + f" U ({base})"
    if kind == "hints-both":
        return " U ".join(hints[: k // 2]) + f" U ({base}) U " + " U ".join(hints[k // 2:])
    if kind == "fcs":
        e = f"({base})"
        for i in range(min(k, 98)):  # format constraint keys end at 999
            e = f"({e}[{902 + i}])"
        return e
    if kind == "brackets":
        return "(" * k + base + ")" * k
    # k hints and-ed onto the FIRST operand (a key) of the base
    return base.replace("[1]", "([1] U " + " U ".join(hints) + ")", 1)


def check_iterated(base, kind, k):
    expr = iterated(base, kind, k)
    pb, pt = X.parse(base), X.parse(expr)
    case = {"iterated": [base, kind, k]}
    if pt[0] == "exc":
        return [{"kind": "transformed-not-well-formed/iterated", "case": case, "expected": "a tree", "observed": pt[1], "msg": expr}], 0
    rckeys = R3.keys_of(pb[2], "rc")
    out = []
    n = 0
    for a in X.assignments(rckeys):
        want = X.eval_async(base, pb[2], a)
        got = X.eval_async(expr, pt[2], a)
        got_t = X.eval_tree(pt[1], pt[2], a)
        want_t = X.eval_tree(pb[1], pb[2], a)
        n += 1
        if want[0] == "exc" and got[0] == "exc" and want[1] == got[1] == "NotImplementedError":
            continue  # undetermined outcome: documented
        if got[0] == "exc" or want[0] == "exc" or got[1:3] != want[1:3] or got_t[0] == "exc" or got_t[1] != want_t[1]:
            out.append({"kind": "requirement-changed/iterated-" + kind, "case": dict(case, assign=a), "expected": [list(want[:3]), list(want_t[:2])],
                        "observed": [list(got[:3]), list(got_t[:2])],
                        "msg": f"{kind} applied {k} times to {base} under {a}: {expr[:120]}"})
            break
    return out, n


def worker_init():
    X.init()


def _render(t, spell, sp, parent=0, right=False):
    """like A.render but understands ('br', x) wrappers (redundant brackets)"""
    if t[0] == "br":
        return "(" + _render(t[1], spell, sp, 0, False) + ")"
    if A.is_leaf(t):
        return f"[{t[1]}]"
    op = t[0]
    p = A.PREC[op]
    l = _render(t[1], spell, sp, p, False)
    r = _render(t[2], spell, sp, p, True)
    s = (l + r) if op == "then" else (l + sp + spell[op] + sp + r)
    if p < parent or (p == parent and (right or op == "then")):
        s = "(" + s + ")"
    return s


def transformations(base, pools):
    """yields (name, path, transformed AST)"""
    hint = ("hint", pools["hint"][1])  # the added keys are the range boundaries (900 / 999 for seed 0)
    fc = ("fc", pools["fc"][1])
    for path, sub in A.subtrees(base):
        parent = None
        if path:
            parent = base
            for step in path[:-1]:
                parent = parent[step]
        at_root_or_uox_operand = (not path) or parent[0] in ("and", "or", "xor")
        if at_root_or_uox_operand:
            yield "hint-right", path, A.replace_at(base, path, ("and", sub, hint))
            yield "hint-left", path, A.replace_at(base, path, ("and", hint, sub))
        if A.contains_rc(sub):
            yield "fc-right", path, A.replace_at(base, path, ("then", sub, fc))
            yield "fc-left", path, A.replace_at(base, path, ("then", fc, sub))
        yield "brackets", path, A.replace_at(base, path, ("br", ("br", sub)))
        if sub[0] in ("and", "or", "xor"):
            yield "swap", path, A.replace_at(base, path, (sub[0], sub[2], sub[1]))


def _states(expr, rckeys):
    """dict assignment-tuple -> observation, or ('exc', name) for a parse failure"""
    pr = X.parse(expr)
    if pr[0] == "exc":
        return ("parse", pr[1])
    _, T, tt = pr
    res = {}
    for a in X.assignments(rckeys):
        r = X.eval_tree(T, tt, a)
        r2 = X.eval_async(expr, tt, a)
        res[tuple(a[k] for k in rckeys)] = (r[1] if r[0] == "ok" else "exc:" + r[1],
                                            (r2[1] if r2[0] == "ok" else "exc:" + r2[1]))
    return res


def check_base(base_ast, seed, only=None, names=None):
    """only = (name, path) restricts to one transformation (replay)"""
    X.init()
    pools = X.pools(seed)
    spell = X.spelling(seed)
    sp = X.spacing(seed)
    out = []
    base_expr = _render(base_ast, spell, sp)
    rckeys = A.keys_of(base_ast, "rc")
    base = _states(base_expr, rckeys)
    n_pairs = 0
    if isinstance(base, tuple):
        return [{"kind": "base-parse-failed", "case": {"base": base_expr}, "expected": "tree", "observed": base[1], "msg": base_expr}], 0
    # UNKNOWN monotonicity on the base
    if only is None or only[0] == "refine":
        for av, (st, ful) in base.items():
            if "?" in av and st in ("F", "U", "N"):
                for ref in itertools.product(*[("F", "U") if s == "?" else (s,) for s in av]):
                    n_pairs += 1
                    if base[ref][0] != st or base[ref][1] != ful:
                        out.append({"kind": "unknown-not-monotone", "case": {"ast": base_ast, "seed": seed, "t": ["refine", []],
                                                                            "assign": dict(zip(rckeys, av)), "refined": dict(zip(rckeys, ref))},
                                    "expected": [st, ful], "observed": list(base[ref]),
                                    "msg": f"{base_expr}: definite outcome under {av} changes under refinement {ref}"})
    # mixed spellings for the transformed expression: operators of the base keep the seed's spelling, the same expression is
    # additionally rendered with the 'other' notation for AND (so that letter and symbol operators meet)
    alt = dict(spell)
    alt["and"] = "∧" if spell["and"] != "∧" else "U"
    alt2 = dict(spell)
    alt2["or"] = "∨" if spell["or"] != "∨" else "O"
    alt2["xor"] = "⊻" if spell["xor"] != "⊻" else "X"
    for name, path, tast in transformations(base_ast, pools):
        if only is not None and (only[0] != name or tuple(only[1]) != tuple(path)):
            continue
        if names is not None and name not in names:
            continue
        for sidx, spl in enumerate((spell, alt, alt2)):
            if sidx > 0 and name != "brackets":
                continue
            texpr = _render(tast, spl, sp)
            if sidx > 0 and texpr == _render(tast, spell, sp):
                continue
            got = _states(texpr, rckeys)
            case = {"ast": base_ast, "seed": seed, "t": [name, list(path)], "base": base_expr, "transformed": texpr}
            if isinstance(got, tuple):
                out.append({"kind": "transformed-parse-failed", "case": case, "expected": "tree", "observed": got[1], "msg": texpr})
                continue
            for av in base:
                n_pairs += 1
                if got[av] != base[av]:
                    out.append({"kind": f"changed-by/{name}", "case": dict(case, assign=dict(zip(rckeys, av))),
                                "expected": list(base[av]), "observed": list(got[av]),
                                "msg": f"{base_expr} -> {texpr} under {dict(zip(rckeys, av))}"})
                    break
    return out, n_pairs


def check_base_mode(base_ast, seed, mode):
    """and-ing a hint (with empty text) onto the whole expression / any operand, evaluated through `mode`"""
    from mc import impl_modes as M

    I = X.init()
    pools = X.pools(seed)
    spell, sp = X.spelling(seed), X.spacing(seed)
    out = []
    rckeys = A.keys_of(base_ast, "rc")
    n = 0

    def states(ast):
        expr = _render(ast, spell, sp)
        hk = A.keys_of(ast, "hint")
        res = {}
        for a in X.assignments(rckeys):
            r = I.try_call(lambda: M.run(mode, lambda: I.requirement_constraint_evaluation(expr), rc=a,
                                         fc={k: (True, None) for k in A.keys_of(ast, "fc")},
                                         hints={k: ("" if k == pools["hint"][1] else f"Hinweis {k}") for k in hk}))
            res[tuple(a[k] for k in rckeys)] = r[1].requirement_constraints_fulfilled if r[0] == "ok" else "exc:" + r[1]
        return expr, res

    bexpr, base = states(base_ast)
    for av, val in base.items():
        if isinstance(val, str) and val.startswith("exc:"):
            # base expressions are valid and in the domain: their evaluation raises under no assignment
            out.append({"kind": f"raised/{mode}", "case": {"ast": base_ast, "seed": seed, "t": ["base", []], "mode": mode,
                                                          "assign": dict(zip(rckeys, av))},
                        "expected": "an outcome", "observed": val, "msg": f"{bexpr} through the {mode} evaluators"})
            return out, n
    for name, path, tast in transformations(base_ast, pools):
        if name not in ("hint-left", "hint-right"):
            continue
        texpr, got = states(tast)
        n += len(got)
        for av in base:
            if got[av] != base[av]:
                out.append({"kind": f"changed-by/{name}/{mode}", "case": {"ast": base_ast, "seed": seed, "t": [name, list(path)], "mode": mode,
                                                                        "assign": dict(zip(rckeys, av))},
                            "expected": base[av], "observed": got[av], "msg": f"{bexpr} -> {texpr} through the {mode} evaluators"})
                break
    return out, n


def run_item(item):
    X.init()
    r = Result()
    pools = X.pools(item["seed"])
    if item.get("fam") == "iterated":
        for base in ITER_BASES:
            vs, pairs = check_iterated(base, item["kind"], item["k"])
            r.evaluations += pairs
            r.states += pairs
            r.transitions += 4 * pairs
            r.traces += 1
            r.nontrivial += pairs
            r.stat("iterated_transformations")
            for v in vs:
                r.violation(v["kind"], v["case"], v["expected"], v["observed"], v["msg"])
        r.sample({"iterated": [ITER_BASES[-1], item["kind"], item["k"]]})
        return r
    if item.get("fam") == "synchints":
        I = X.init()
        I.setup(sync_hints=True)
        try:
            for ast in A.asts(item["n"], "all", pools={k: [v[0]] + v[2:] for k, v in pools.items()}):
                if not A.is_valid(ast):
                    continue
                vs, pairs = check_base(ast, item["seed"], names=["hint-left", "hint-right", "swap"])
                r.evaluations += pairs
                r.states += pairs
                r.transitions += 2 * pairs
                r.traces += 1
                r.nontrivial += pairs
                r.stat("bases_with_sync_hints_provider")
                for v in vs:
                    v["kind"] += "/sync-hints-provider"
                    v["case"]["sync_hints"] = True
                    r.violation(v["kind"], v["case"], v["expected"], v["observed"], v["msg"])
        finally:
            I.setup()
        return r
    if item.get("fam") == "modes":
        from mc import impl_modes as M

        try:
            for ast in A.asts(item["n"], "all", pools={k: [v[0]] + v[2:] for k, v in pools.items()}):
                if not A.is_valid(ast):
                    continue
                vs, n = check_base_mode(ast, item["seed"], item["mode"])
                r.evaluations += n
                r.states += n
                r.transitions += n
                r.traces += 1
                r.nontrivial += n
                for v in vs:
                    r.violation(v["kind"], v["case"], v["expected"], v["observed"], v["msg"])
                r.sample({"base": X.render(ast, item["seed"]), "mode": item["mode"]})
        finally:
            M.restore()
        return r
    i = -1
    for ast in A.asts(item["n"], item["lab"], pools={k: [v[0]] + v[2:] for k, v in pools.items()}):
        if not A.is_valid(ast):
            continue
        i += 1
        if i % item["parts"] != item["part"]:
            continue
        vs, pairs = check_base(ast, item["seed"], names=item.get("only"))
        r.evaluations += pairs
        r.states += pairs
        r.transitions += 2 * pairs
        r.traces += 1
        if item["n"] >= 2:
            r.nontrivial += pairs
        r.stat("bases")
        for v in vs:
            r.violation(v["kind"], v["case"], v["expected"], v["observed"], v["msg"])
        r.sample({"base": X.render(ast, item["seed"]), "pairs": pairs})
    return r


def _tup(x):
    return tuple(_tup(y) for y in x) if isinstance(x, list) else x


def replay(case):
    if case.get("iterated"):
        X.init()
        return [v for v in check_iterated(*case["iterated"])[0]]
    ast = _tup(case["ast"])
    if case.get("mode"):
        from mc import impl_modes as M

        try:
            return [v for v in check_base_mode(ast, case["seed"], case["mode"])[0] if v["case"]["t"] == case["t"]]
        finally:
            M.restore()
    if case.get("sync_hints"):
        I = X.init()
        I.setup(sync_hints=True)
        try:
            vs = check_base(ast, case["seed"], only=(case["t"][0], case["t"][1]))[0]
            for v in vs:
                v["kind"] += "/sync-hints-provider"
            return vs
        finally:
            I.setup()
    return check_base(ast, case["seed"], only=(case["t"][0], case["t"][1]))[0]
