"""C11 — parsing is a pure function of the string, whatever happened before (E2: explicit-state BFS over histories)."""
import json
import zlib

from lark import Token

from mc import histories
from mc.runner import Result

ID = "C11"
TITLE = "Parsing is a pure function of the string, whatever happened before"
ENGINE = "e2-history-bfs"
ISOLATE_PARTITIONS = True  # every partition starts from cold parser caches

COND = ["[1] U ([2] O [3])", "[4P0..1][901] X [UB3]", "[1000] O ([0] U [2500])", "[12] U [34P]"]
# malformed strings that become a string of COND when whitespace is removed (a blank INSIDE a key) or when upper-cased
MALFORMED = ["[1 2] U [34P]", "[12] U [34 P]", "[12] u [34p]"]  # the last one: the lower-case TWIN of COND[3] (package marker p)
AHB = ["Muss [1] U [2] Soll [3]"]
# runs of one operator (their inner grouping is unspecified, but every parse of the same text groups them the same way); only
# observed by the invariant (no operations of its own): parsed from scratch, with the execution's unique padding, in every state
CHAIN = "[1] U [2] U [3] O [4] O [5] X [6] X [7][901]"
PACKAGES = {"4P": "[1] O [3]"}
RC = {"1": "F", "2": "U", "3": "?", "492": "F", "493": "U"}
FC = {"901": (True, None), "932": (True, None), "934": (False, "msg 934")}
EDIT_KINDS = ["replace_child", "delete_child", "append_child", "clear_children", "rename_node", "set_token_value"]
FLOOD_N = 1100
NONEDIT_OPS = [["Pc", 0], ["Pc", 1], ["Pc", 2], ["Pc", 3], ["Pm", 0], ["Pm", 1], ["Pm", 2], ["Pa", 0], ["R", 0], ["R", 1], ["Ev", 0], ["Flood"]]
BOUNDS = {"quick": {"depth": 3, "max_edits": 1, "flood_depth": 2, "spread": 4},
          "thorough": {"depth": 4, "max_edits": 2, "flood_depth": 4, "spread": 48}}


def describe(tier):
    b = BOUNDS[tier]
    return {
        "rule": f"breadth-first search over ALL operation histories up to depth {b['depth']} over the alphabet Pc(s) (condition parser, "
                f"{len(COND)} strings incl. keys outside the number ranges), Pm(s) (a MALFORMED string that equals a valid one when whitespace is "
                "removed), Pa(s) (AHB parser), R(s) (resolver with packages + time conditions, AHB and condition string), Ev(s) "
                "(evaluate under a fixed content evaluation result), Edit(handle, node, kind) - child list edits, renaming, and assignment to the attributes of a Token object - on one of the last two returned trees for EVERY "
                f"node of the tree and kind in {EDIT_KINDS}, (the invariant also re-parses a 7-operand expression with runs of U, O and X: same grouping in every state), and, as a separate family, all histories P, Flood(n), P, Edit(every node of the tree the second P returned; quick tier: 3 of the 6 edit kinds, 3 of the 5 P) for n in "
                f"{FLOOD_EDIT_N[tier]} (more than the cache / more than half of it), Flood (= {FLOOD_N} fresh distinct strings through both public parsers: real LRU "
                f"eviction, every flooded result checked); at most {b['max_edits']} edits per history, at most one flood, floods only in "
                "edit-free histories (deviation bounds). Every transition replays the history from scratch on the real functions with "
                "per-execution whitespace-padded spellings (distinct cache keys, same trees). Invariant evaluated in EVERY state: for every "
                "string each parser/resolver result is structurally identical (token types included) to the snapshot taken in the cold "
                "initial state, and Ev(s) equals its initial result. States are deduplicated by (flooded?, canonical form of the held "
                "trees).",
        "bounds": b,
        "exhaustive": True,
        "assumptions": ["trees of the chosen strings are fully determined by precedence (no same-operator run of length >= 3), so "
                        "whitespace-padded spellings must yield identical trees",
                        "histories longer than the depth bound / with two floods are not claimed"],
    }


# histories of the fixed shape  P, Flood(n), P, Edit(any node, any kind, on the tree the second P returned), [invariant]
# n = more than the whole cache / more than half of it (LRU approximations with generations) / just below the cache size
FLOOD_EDIT_P = [["Pc", 0], ["Pc", 1], ["Pc", 3], ["Pa", 0], ["R", 1]]
FLOOD_EDIT_N = {"quick": [600, 1100], "thorough": [300, 600, 900, 1023, 1100]}


def plan(tier, seed):
    b = BOUNDS[tier]
    items = []
    for pi in ((0, 3, 4) if tier == "quick" else range(len(FLOOD_EDIT_P))):
        for n in FLOOD_EDIT_N[tier]:
            items.append({"fam": "flood-edit", "p": pi, "n": n, "tier": tier})
    for first in NONEDIT_OPS:
        for r in range(b["spread"]):
            items.append({"first": first, "residue": r, "spread": b["spread"], "tier": tier})
    # the same histories with the library's loggers ENABLED (every other partition runs with logging disabled): level 1 = every
    # record incl. the parsers' own level-5 "loaded from the cache" record, 5 = exactly that level, 10 = DEBUG
    for level in LOG_LEVELS[tier]:
        for first in NONEDIT_OPS:
            if first[0] in ("Flood", "Pm") and tier == "quick":
                continue
            items.append({"first": first, "residue": 0, "spread": 1, "tier": tier, "log": level, "depth": LOG_DEPTH[tier]})
    return items


LOG_LEVELS = {"quick": [1, 5], "thorough": [1, 5, 10, 20]}
LOG_DEPTH = {"quick": 2, "thorough": 3}


def _set_logging(level):
    """None: all logging disabled (default of every check); n: every logger of the process enabled from level n on, records go to a
    NullHandler (nothing is formatted or printed)"""
    import logging

    if level is None:
        logging.disable(logging.CRITICAL)
        return
    logging.disable(logging.NOTSET)
    root = logging.getLogger()
    if not any(isinstance(h, logging.NullHandler) for h in root.handlers):
        root.addHandler(logging.NullHandler())
    root.setLevel(level)
    for lg in list(logging.Logger.manager.loggerDict.values()):
        if isinstance(lg, logging.Logger) and lg.name.startswith("ahbicht"):
            lg.setLevel(level)


_I = None
_EXP = {}
_counter = [0]


def worker_init():
    global _I
    if _I is not None:
        return
    from mc import impl

    impl.setup()
    _I = impl
    # snapshot in the cold initial state, through the public functions, of the base spellings
    I = impl
    for i, s in enumerate(COND):
        r = I.try_call(I.parse_condition_expression_to_tree, s)
        _EXP[("Pc", i)] = I.tree_to_tuple(r[1]) if r[0] == "ok" else ("exc", r[1])
    _EXP[("Pcc", 0)] = I.tree_to_tuple(I.parse_condition_expression_to_tree(CHAIN))
    _EXP[("Pa", 0)] = I.tree_to_tuple(I.parse_ahb_expression_to_single_requirement_indicator_expressions(AHB[0]))
    _EXP[("R", 0)] = I.tree_to_tuple(_resolve(AHB[0]))
    _EXP[("R", 1)] = I.tree_to_tuple(_resolve(COND[1]))
    _EXP[("Ev", 0)] = _evaluate(AHB[0])
    # calibration (cold state): does the AHB parser keep the whitespace between indicator and condition text in its token?
    cal = "\t \t \t"
    # (an expression that is unrelated to the strings under test and has never been parsed in any other spelling)
    t = I.tree_to_tuple(I.parse_ahb_expression_to_single_requirement_indicator_expressions("Kann" + cal + "[77] O [78]"))
    _EXP["keeps_ws"] = cal in repr(t).encode().decode("unicode_escape")


def _env():
    return _I.Env(rc=RC, fc=FC, packages=PACKAGES)


def _resolve(s):
    return _I.run(_I.parse_expression_including_unresolved_subexpressions(s, resolve_packages=True), _env())


def _evaluate(s):
    r = _I.try_call(lambda: _I.run(_I.evaluate_ahb_expression_tree(_resolve(s)), _env()))
    if r[0] == "exc":
        return ("exc", r[1])
    x = r[1]
    rc, fc = x.requirement_constraint_evaluation_result, x.format_constraint_evaluation_result
    return ("ok", str(x.requirement_indicator), rc.requirement_constraints_fulfilled, rc.requirement_is_conditional,
            rc.format_constraints_expression, rc.hints, fc.format_constraints_fulfilled, fc.error_message)


def _pad(n):
    """unique whitespace string per execution"""
    bits = bin(n + 1)[2:]
    return "".join(" " if b == "0" else "\t" for b in bits)


class World:
    def __init__(self):
        _counter[0] += 1
        self.pad = _pad(_counter[0])
        self.uid = _counter[0]
        self.handles = []
        self.flooded = False

    def cond(self, i):
        return COND[i] + self.pad

    def ahb(self, i):
        return "Muss" + self.pad + AHB[i][4:]

    def expected(self, what, i):
        exp = _EXP[(what, i)]
        if what == "Pa":
            # the AHB grammar keeps whitespace: the first condition expression token carries the padding
            first = [True]

            def fix(t):
                if isinstance(t, tuple):
                    if t and t[0] == "%CONDITION_EXPRESSION" and first[0]:
                        first[0] = False
                        return (t[0], (self.pad if _EXP["keeps_ws"] else "") + t[1])
                    return tuple(fix(c) if isinstance(c, tuple) else c for c in t)
                return t

            return fix(exp)
        return exp


def _nodes(tree):
    from lark import Tree

    out = []

    def walk(t):
        if isinstance(t, Tree):
            out.append(t)
            for c in t.children:
                walk(c)

    walk(tree)
    return out


def _apply(world: World, op):
    """executes one operation on the real code; returns violations found while doing so (flood)"""
    I = _I
    from lark import Token, Tree

    viol = []
    kind = op[0]
    if kind == "Pm":
        # a malformed sibling spelling (must be rejected; must not influence anything else)
        r = I.try_call(I.parse_condition_expression_to_tree, MALFORMED[op[1]] + world.pad)
        if r[0] == "ok" or not isinstance(r[2], SyntaxError):
            viol.append({"kind": "parse-differs-from-fresh", "target": f"Pm{op[1]} (malformed string)", "expected": "SyntaxError",
                         "observed": "a tree" if r[0] == "ok" else r[1]})
    elif kind in ("Pc", "Pa", "R"):
        if kind == "Pc":
            r = I.try_call(I.parse_condition_expression_to_tree, world.cond(op[1]))
        elif kind == "Pa":
            r = I.try_call(I.parse_ahb_expression_to_single_requirement_indicator_expressions, world.ahb(op[1]))
        else:
            r = I.try_call(_resolve, world.ahb(0) if op[1] == 0 else world.cond(1))
        if r[0] == "ok":
            world.handles = (world.handles + [r[1]])[-2:]
        elif kind == "Pc" and _EXP[("Pc", op[1])] == ("exc", r[1]):
            pass  # raised in the cold initial state, too
        else:  # the same call succeeded in the cold initial state
            viol.append({"kind": "parse-differs-from-fresh", "target": f"{kind}{op[1]} (operation itself)",
                         "expected": "a tree, as in the initial state", "observed": r[1]})
    elif kind == "Ev":
        _evaluate(world.ahb(op[1]))
    elif kind == "Flood":
        # fresh distinct strings with keys INSIDE the number ranges (distinct by key pair + the execution's padding)
        for j in range(op[1] if len(op) > 1 else FLOOD_N):
            k1, k2 = str(1 + j % 499), str(501 + (j // 499) % 400)
            fs = f"[{k1}]U[{k2}]{world.pad}"
            r = I.try_call(I.parse_condition_expression_to_tree, fs)
            t = I.tree_to_tuple(r[1]) if r[0] == "ok" else ("exc", r[1])
            if t != ("and_composition", ("condition", ("%CONDITION_KEY", k1)), ("condition", ("%CONDITION_KEY", k2))):
                viol.append({"kind": "parse-differs-from-fresh", "target": f"flood {fs!r}", "expected": f"and([{k1}], [{k2}])",
                             "observed": repr(t)[:300]})
                break
            fa = f"X{world.pad}[{k1}][{k2}]"
            r = I.try_call(I.parse_ahb_expression_to_single_requirement_indicator_expressions, fa)
            ta = I.tree_to_tuple(r[1]) if r[0] == "ok" else ("exc", r[1])
            if not (isinstance(ta, tuple) and ta[0] == "ahb_expression" and "".join(repr(ta).split()).count(f"[{k1}][{k2}]") == 1):
                viol.append({"kind": "parse-differs-from-fresh", "target": f"flood {fa!r}", "expected": f"X + [{k1}][{k2}]",
                             "observed": repr(ta)[:300]})
                break
        world.flooded = True
    elif kind == "Edit":
        _, h, j, ek = op
        nodes = _nodes(world.handles[h]) if h < len(world.handles) else []
        if j >= len(nodes) or (ek in ("replace_child", "delete_child", "clear_children") and not nodes[j].children) or \
                (ek == "set_token_value" and not (nodes[j].children and isinstance(nodes[j].children[0], Token))):
            # the edit was enabled when the parent history was executed: the same operations returned a different tree now
            viol.append({"kind": "parse-differs-from-fresh", "target": "replay of the same history returned a different tree",
                         "expected": f"a tree with node #{j}", "observed": f"{len(nodes)} nodes"})
            return viol
        node = nodes[j]
        if ek == "replace_child":
            node.children[0] = Token("CONDITION_KEY", "777")
        elif ek == "delete_child":
            del node.children[-1]
        elif ek == "append_child":
            node.children.append(Tree("junk", [Token("CONDITION_KEY", "888")]))
        elif ek == "clear_children":
            node.children.clear()
        elif ek == "rename_node":
            node.data = "renamed"
        elif ek == "set_token_value":
            # the Token OBJECT of the returned tree is modified (its attributes are writable), the children list is left alone
            node.children[0].value = "777"
            node.children[0].type = "EDITED"
    else:
        raise ValueError(op)
    return viol


def _enabled(world: World):
    ops = [list(o) for o in NONEDIT_OPS if not (o[0] == "Flood" and world.flooded)]
    for h, tree in enumerate(world.handles):
        for j, node in enumerate(_nodes(tree)):
            for ek in EDIT_KINDS:
                if ek in ("replace_child", "delete_child", "clear_children") and not node.children:
                    continue
                if ek == "set_token_value" and not (node.children and isinstance(node.children[0], Token)):
                    continue
                ops.append(["Edit", h, j, ek])
    return ops


def _invariant(world: World):
    I = _I
    viol = []
    obs = [
        (("Pc", 0), lambda: I.tree_to_tuple(I.parse_condition_expression_to_tree(world.cond(0)))),
        (("Pc", 1), lambda: I.tree_to_tuple(I.parse_condition_expression_to_tree(world.cond(1)))),
        (("Pc", 2), lambda: I.tree_to_tuple(I.parse_condition_expression_to_tree(world.cond(2)))),
        (("Pc", 3), lambda: I.tree_to_tuple(I.parse_condition_expression_to_tree(world.cond(3)))),
        (("Pcc", 0), lambda: I.tree_to_tuple(I.parse_condition_expression_to_tree(CHAIN + world.pad))),
        (("Pa", 0), lambda: I.tree_to_tuple(I.parse_ahb_expression_to_single_requirement_indicator_expressions(world.ahb(0)))),
        (("R", 0), lambda: I.tree_to_tuple(_resolve(world.ahb(0)))),
        (("R", 1), lambda: I.tree_to_tuple(_resolve(world.cond(1)))),
        (("Ev", 0), lambda: _evaluate(world.ahb(0))),
    ]
    for (what, i), f in obs:
        r = I.try_call(f)
        exp = world.expected(what, i)
        got = r[1] if r[0] == "ok" else ("exc", r[1])
        if got != exp:
            viol.append({"kind": "parse-differs-from-fresh" if what != "Ev" else "evaluation-depends-on-history",
                         "target": f"{what}{i}", "expected": repr(exp)[:400], "observed": repr(got)[:400]})
    return viol


def execute(history):
    """replays a history from scratch on the real code; returns (canonical state, violations, enabled ops)"""
    if _I is None:
        worker_init()
    world = World()
    viol = []
    for op in history:
        viol += _apply(world, op)
    viol += _invariant(world)
    canon = (world.flooded, tuple(_I.tree_to_tuple(h) for h in world.handles))
    return canon, viol, _enabled(world)


def _filter(bounds, item):
    def f(hist, op):
        n_edits = sum(1 for o in hist if o[0] == "Edit")
        has_flood = any(o[0] == "Flood" for o in hist)
        if op[0] == "Edit":
            if n_edits >= bounds["max_edits"] or has_flood:
                return False
        if op[0] == "Flood":
            if has_flood or n_edits > 0 or len(hist) + 1 > bounds["flood_depth"]:
                return False
        if has_flood and len(hist) >= 2 and op[0] == "Flood":
            return False
        if len(hist) == 1 and zlib.crc32(json.dumps(op).encode()) % item["spread"] != item["residue"]:
            return False
        return True

    return f


def run_item(item):
    if _I is None:
        worker_init()
    b = BOUNDS[item["tier"]]
    r = Result()
    _set_logging(item.get("log"))
    if item.get("log") is not None:
        r.stat("histories_run_with_logging_enabled", 0)
    if item.get("fam") == "flood-edit":
        p = FLOOD_EDIT_P[item["p"]]
        prefix = [p, ["Flood", item["n"]], p]
        _, viol, ops = execute(prefix)
        hists = [(prefix, viol)]
        last = None
        for o in ops:
            if o[0] == "Edit":
                last = o[1] if last is None or o[1] > last else last
        for o in ops:
            if o[0] == "Edit" and o[1] == last and (item["tier"] != "quick" or o[3] in ("append_child", "set_token_value", "delete_child")):
                _, v2, _ = execute(prefix + [o])
                hists.append((prefix + [o], v2))
        for hist, vs in hists:
            r.evaluations += 1
            r.states += 1
            r.transitions += len(hist)
            r.traces += 1
            r.nontrivial += 1
            for v in vs:
                r.violation(v["kind"], {"history": hist, "target": v["target"]}, v["expected"], v["observed"],
                            f"after history {hist}: {v['target']} differs from the cold-state result")
        r.sample({"history": prefix + ["Edit(...) x %d" % (len(hists) - 1)]})
        return r
    res = histories.bfs(execute, [item["first"]], item.get("depth", b["depth"]), op_filter=_filter(b, item))
    if item.get("log") is not None:
        r.stats["histories_run_with_logging_enabled"] = res.histories
    r.evaluations = res.histories
    r.states = res.states
    r.transitions = res.transitions
    r.traces = res.histories
    r.nontrivial = res.histories - 1
    r.stat("max_depth", 0)
    r.stats["max_depth_seen"] = res.max_depth
    r.stat("deduplicated_states", res.deduplicated)
    for hist, v in res.violations:
        case = {"history": hist, "target": v["target"]}
        if item.get("log") is not None:
            case["log"] = item["log"]
        r.violation(v["kind"], case, v["expected"], v["observed"],
                    f"after history {hist}" + (f" with loggers enabled from level {item['log']}" if item.get("log") is not None else "") +
                    f": {v['target']} differs from the cold-state result")
    for s in res.samples:
        r.sample({"history": s}, limit=4)
    return r


def replay(case):
    if _I is None:
        worker_init()
    _set_logging(case.get("log"))
    _, viol, _ = execute(case["history"])
    return [{"kind": v["kind"], "case": case, "expected": v["expected"], "observed": v["observed"]} for v in viol]
