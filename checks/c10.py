"""C10 — resolving packages and time conditions is exact bracketed substitution (E1, R6, I3)."""
import itertools

from mc.enum import surface as S
from mc.ref import condparse as R2
from mc.ref import subst as R6
from mc.runner import Result

ID = "C10"
TITLE = "Resolving packages and time conditions is exact bracketed substitution"
ENGINE = "e1-bounded-enumeration"

ATOMS8 = ["[1]", "[1P]", "[2P]", "[1P0..1]", "[3P9..10]", "[UB1]", "[UB2]", "[UB3]"]
ATOMS5 = ["[1]", "[1P]", "[2P]", "[UB1]", "[UB3]"]
TABLES = [
    {"1P": "[11]", "2P": "[12]", "3P": "[13]"},
    {"1P": "[11] O [12]", "2P": "[12] X [13]", "3P": "[13]"},
    {"1P": "[11][901]", "2P": "[12]", "3P": "[13]U[14][902]"},
    {"1P": "[11] U [UB3]", "2P": "[UB1]", "3P": "[UB2] O [15]"},
    {"1P": "[2P] U [11]", "2P": "[3P]", "3P": "[1P0..1]"},
    {"1P": "[11]", "3P": "[13]"},  # 2P is unknown to the resolver
    {"1P": "[11] U [12]", "2P": "[11] U [12]", "3P": "[13]"},  # two packages with the same expression
    {"1P": "([11] O [12]) U ([13] o [14])", "2P": "(([12]))", "3P": "([13] x [14])[901]"},  # bracket shapes, lower case operators
    {},  # no package is known at all (the shipped content evaluation result then carries packages = None or {})
]
VERSION_TABLES = [(0, 1), (1, 0), (1, 3), (3, 7), (6, 2), (7, 5), (5, 1)]
FLAGS = [(True, True), (True, False), (False, True)]
OPS_NOT_THEN = ("or_composition", "xor_composition", "and_composition")
BOUNDS = {"quick": {"n3": "chains+5atoms", "n4": False}, "thorough": {"n3": "brackets+8atoms", "n4": True}}


def describe(tier):
    return {
        "rule": "every well-formed string with 1-2 atoms (<= 1 bracket pair) over the 8 atoms " + " ".join(ATOMS8) + "; with 3 atoms: "
                + ("all bracket-free chains over 5 atoms" if tier == "quick" else "all templates with <= 1 bracket pair over all 8 atoms, and "
                   "all bracket-free 4-atom chains over 5 atoms") +
                "; as condition expression and (1-2 atoms) wrapped as 'Muss e', 'X e', 'Muss e Soll e Kann'; x "
                f"{len(TABLES)} package tables (single key; lower-precedence operator inside; juxtaposition inside; time conditions inside; "
                "another package inside; a MISSING entry; two packages with equal expressions) x flag combinations (both / packages only "
                "/ time conditions only). Oracle: flatten(resolved tree) == flatten(parse(R6(expr))) where R6 is the textual bracketed "
                "substitution and the parse uses the real parser with both flags off (I3: only U/O/X runs are flattened, juxtaposition is "
                "compared exactly); exactly one package level is expanded; any occurrence of a missing package => NotImplementedError. "
                "Chains with 6 and 7 (thorough: 11) package occurrences (the three rotations of three packages over the positions, and "
                "each of them with one position replaced by a key / another package / a time condition) as condition expression and split over two modal mark parts. All 1-2 atom expressions x all tables are also resolved with the table delivered by the library's DictBasedPackageResolver "
                "(evaluator_factory), ContentEvaluationResultBasedPackageResolver (fresh and one shared EvaluatableData object) and JsonFilePackageResolver (dictionary and list-of-mappings files), and with resolvers for a general and a specific EDIFACT format registered in one provider in either order. Also through expand_packages / expand_time_conditions called directly, and (5 expressions with 2-3 package occurrences x 3 "
                "tables) under ALL completion orders of a package resolver that really suspends (virtual event loop). Non-trivial = >= 2 abbreviations in the string.",
        "bounds": BOUNDS[tier],
        "exhaustive": True,
        "assumptions": ["I3: same-operator regrouping is unspecified (C01), hence the flattening of U/O/X runs"],
    }


def _strings(tier):
    """yields (family, expr)"""
    for n in (1, 2):
        for q in (0, 1):
            for tmpl in S.exprs_exact(n, q):
                for atoms in itertools.product(ATOMS8, repeat=n):
                    yield ("small", S.render(tmpl, atoms=list(atoms)))
    if tier == "quick":
        for tmpl in S.exprs_exact(3, 0):
            for atoms in itertools.product(ATOMS5, repeat=3):
                yield ("n3", S.render(tmpl, atoms=list(atoms)))
    else:
        for q in (0, 1):
            for tmpl in S.exprs_exact(3, q):
                for atoms in itertools.product(ATOMS8, repeat=3):
                    yield ("n3", S.render(tmpl, atoms=list(atoms)))
        for tmpl in S.exprs_exact(4, 0):
            for atoms in itertools.product(ATOMS5, repeat=4):
                yield ("n4", S.render(tmpl, atoms=list(atoms)))


ORDER_EXPRS = ["[1P] U [2P]", "[1P0..1] U ([2P] O [3P])", "([1P][901]) X [2P] X [1P]", "Muss [1P] Soll [2P] U [3P]", "[3P] O [1P]"]


def plan(tier, seed):
    parts = 96 if tier == "quick" else 1024
    items = [{"tier": tier, "part": p, "parts": parts} for p in range(parts)]
    # many package occurrences in one expression (6, 7, 11): every assignment of {1P, 2P, 3P} to the positions of U / O / juxtaposed chains
    for n in (6, 7) if tier == "quick" else (6, 7, 11):
        for op in ("U", "O", "X"):
            items.append({"fam": "many", "n": n, "op": op})
    # the package tables delivered through the resolvers the library ships
    for mode in ("hardcoded", "cer", "methods", "cer-shared", "jsonfile", "formats-general-first", "formats-specific-first"):
        for table in range(len(TABLES)):
            items.append({"fam": "modes", "mode": mode, "table": table})
    # ONE provider holding package resolvers for two format versions of one format with different tables; resolutions alternate
    for t0, t1 in VERSION_TABLES:
        items.append({"fam": "versions", "tables": [t0, t1]})
    # package resolvers that really suspend: ALL completion orders on the virtual event loop (E3)
    for e in range(len(ORDER_EXPRS)):
        for table in (1, 2, 3):
            items.append({"fam": "orders", "expr": e, "table": table, "early": 0 if tier == "quick" else 1})
    return items


_I = None


def worker_init():
    global _I
    from mc import impl

    impl.setup()
    _I = impl


def _flat(t):
    return R2.flatten(_I.tree_to_tuple(t), OPS_NOT_THEN)


def check_case(expr, table, fp, ft, direct=False, mode=None):
    if _I is None:
        worker_init()
    I = _I
    out = []
    pk = TABLES[table]
    case = {"expr": expr, "table": table, "resolve_packages": fp, "replace_time_conditions": ft, "direct": direct, "mode": mode}
    env = I.Env(packages=pk)
    try:
        sub = R6.substitute(expr, pk, fp, ft)
        missing = None
    except R6.MissingPackage as m:
        sub, missing = None, str(m)
    if direct:
        def call():
            t = I.parse_condition_expression_to_tree(expr)
            if fp:
                t = I.run(I.expand_packages(t), env)
            if ft:
                t = I.expand_time_conditions(t)
            return t
    elif mode:
        from mc import impl_modes as M

        def call():
            return M.run(mode, lambda: I.parse_expression_including_unresolved_subexpressions(expr, resolve_packages=fp,
                                                                                             replace_time_conditions=ft), packages=pk)
    else:
        def call():
            return I.run(I.parse_expression_including_unresolved_subexpressions(expr, resolve_packages=fp,
                                                                                 replace_time_conditions=ft), env)
    r = I.try_call(call)
    if missing is not None:
        if r[0] == "ok":
            out.append({"kind": "missing-package-unnoticed", "case": case, "expected": "NotImplementedError",
                        "observed": repr(_flat(r[1]))[:300], "msg": f"{expr}: package {missing} is unknown to the resolver"})
        elif r[1] != "NotImplementedError":
            out.append({"kind": "missing-package-other-exception", "case": case, "expected": "NotImplementedError", "observed": r[1],
                        "msg": expr})
        return out
    if r[0] == "exc":
        out.append({"kind": "resolution-raised", "case": case, "expected": f"tree of {sub!r}", "observed": r[1], "msg": expr})
        return out
    if mode:
        I.setup()
    e = I.try_call(lambda: I.run(I.parse_expression_including_unresolved_subexpressions(sub, resolve_packages=False,
                                                                                         replace_time_conditions=False), I.Env()))
    if e[0] == "exc":
        raise RuntimeError(f"harness error: substituted string {sub!r} of {expr!r} does not parse: {e[1]}")
    got, exp = _flat(r[1]), _flat(e[1])
    if got != exp:
        out.append({"kind": "not-the-substituted-tree", "case": case, "expected": repr(exp)[:500], "observed": repr(got)[:500],
                    "msg": f"{expr} with {pk}: expected the tree of {sub!r}"})
    return out


def check_versions(expr, t0, t1):
    """`expr` resolved alternately for two format versions behind one token logic provider: every resolution equals the textual
    substitution with the table of ITS version"""
    from mc import impl_modes as M

    if _I is None:
        worker_init()
    I = _I
    seq = (0, 1, 0, 1)
    res = M.run_versions(lambda: I.parse_expression_including_unresolved_subexpressions(expr, resolve_packages=True, replace_time_conditions=True),
                         [{}, {}], seq, packages_by_version=[TABLES[t0], TABLES[t1]])
    I.setup()
    out = []
    for i, (v, r) in enumerate(zip(seq, res)):
        pk = TABLES[(t0, t1)[v]]
        case = {"expr": expr, "versions": [t0, t1], "step": i}
        try:
            sub = R6.substitute(expr, pk, True, True)
        except R6.MissingPackage:
            if r[0] == "ok" or r[1] != "NotImplementedError":
                out.append({"kind": "missing-package-unnoticed/two-versions", "case": case, "expected": "NotImplementedError",
                            "observed": r[1] if r[0] == "exc" else repr(_flat(r[1]))[:300], "msg": expr})
                break
            continue
        if r[0] == "exc":
            out.append({"kind": "resolution-raised/two-versions", "case": case, "expected": f"tree of {sub!r}", "observed": r[1], "msg": expr})
            break
        e = I.run(I.parse_expression_including_unresolved_subexpressions(sub, resolve_packages=False, replace_time_conditions=False), I.Env())
        if _flat(r[1]) != _flat(e):
            out.append({"kind": "not-the-substituted-tree/two-versions", "case": case, "expected": repr(_flat(e))[:500],
                        "observed": repr(_flat(r[1]))[:500],
                        "msg": f"{expr}: resolution {i + 1} of the sequence {list(seq)} carries format version {v} whose table is {pk}"})
            break
    return out


def _orders_setup(item):
    import json

    from mc import vloop

    if _I is None:
        worker_init()
    I = _I
    expr = ORDER_EXPRS[item["expr"]]
    pk = TABLES[item["table"]]
    sub = R6.substitute(expr, pk, True, True)
    want = repr(_flat(I.run(I.parse_expression_including_unresolved_subexpressions(sub, resolve_packages=False,
                                                                                    replace_time_conditions=False), I.Env())))

    def factory(sched):
        async def y(kind, key):
            await sched.point(f"{kind}:{key}")

        env = I.Env(packages=pk, yielder=y)

        async def main():
            I.ENV.set(env)
            t = await I.parse_expression_including_unresolved_subexpressions(expr, resolve_packages=True, replace_time_conditions=True)
            return repr(_flat(t))

        return main()

    def observe(ex):
        return json.dumps(["exception", type(ex.exception).__name__] if ex.exception is not None else ex.result)

    return vloop, factory, observe, json.dumps(want), expr, pk, sub


def _run_orders(item, r):
    vloop, factory, observe, want, expr, pk, sub = _orders_setup(item)
    exp = vloop.explore(factory, observe, order_bound=None, early_bound=item["early"])
    r.evaluations += exp.schedules
    r.states += exp.decision_points
    r.transitions += exp.decision_points
    r.traces += exp.schedules
    r.nontrivial += max(0, len(exp.completion_traces) - 1)
    r.stat("schedules", exp.schedules)
    for out in exp.outcomes:
        if out != want:
            r.violation("not-the-substituted-tree/completion-order", {"orders": item, "choices": exp.first_schedule_of_outcome[out]},
                        want[:400], out[:400], f"{expr} with {pk}: expected the tree of {sub!r} whatever order the package resolver answers in")
    r.sample({"expr": expr, "packages": pk, "schedules": exp.schedules})
    return r


def run_item(item):
    if _I is None:
        worker_init()
    r = Result()
    if item.get("fam") == "orders":
        return _run_orders(item, r)
    if item.get("fam") == "many":
        n = item["n"]
        pk = ("[1P]", "[2P]", "[3P9..10]")
        combos = [tuple(pk[(i + s) % 3] for i in range(n)) for s in range(3)]
        combos += [tuple(pk[(i + s) % 3] if i != d else alt for i in range(n)) for s in range(3) for d in range(n)
                   for alt in ("[1]", "[1P]", "[UB3]")]
        for atoms in combos:
            expr = (" " + item["op"] + " ").join(atoms)
            for s in (expr, "Muss " + " U ".join(atoms[:n // 2]) + " Soll " + " O ".join(atoms[n // 2:])):
                for table in (0, 1):
                    vs = check_case(s, table, True, True)
                    r.evaluations += 1
                    r.states += 1
                    r.transitions += 2
                    r.traces += 1
                    r.nontrivial += 1
                    for v in vs:
                        r.violation(v["kind"], v["case"], v["expected"], v["observed"], v["msg"])
            r.sample({"expr": expr, "family": "many"})
        return r
    if item.get("fam") == "versions":
        from mc import impl_modes as M

        try:
            for n in (1, 2):
                for tmpl in S.exprs_exact(n, 0):
                    for atoms in itertools.product(ATOMS5, repeat=n):
                        expr = S.render(tmpl, atoms=list(atoms))
                        if "P" not in expr:
                            continue
                        for s in (expr, "Muss " + expr):
                            vs = check_versions(s, *item["tables"])
                            r.evaluations += 4
                            r.states += 4
                            r.transitions += 8
                            r.traces += 1
                            r.nontrivial += 4
                            r.stat("two_version_sequences")
                            for v in vs:
                                r.violation(v["kind"], v["case"], v["expected"], v["observed"], v["msg"])
                        r.sample({"expr": expr, "versions": item["tables"]})
        finally:
            M.restore()
        return r
    if item.get("fam") == "modes":
        from mc import impl_modes as M

        try:
            for n in (1, 2):
                for tmpl in S.exprs_exact(n, 0):
                    for atoms in itertools.product(ATOMS8, repeat=n):
                        expr = S.render(tmpl, atoms=list(atoms))
                        for s in (expr, "Muss " + expr):
                            vs = check_case(s, item["table"], True, True, mode=item["mode"])
                            r.evaluations += 1
                            r.states += 1
                            r.transitions += 2
                            r.traces += 1
                            r.nontrivial += 1 if n == 2 else 0
                            for v in vs:
                                r.violation(v["kind"], v["case"], v["expected"], v["observed"], v["msg"])
                        r.sample({"expr": expr, "mode": item["mode"], "table": item["table"]})
        finally:
            M.restore()
        return r
    for i, (fam, expr) in enumerate(_strings(item["tier"])):
        if i % item["parts"] != item["part"]:
            continue
        variants = [expr]
        if fam == "small":
            variants += ["Muss " + expr, "X" + expr, f"Muss {expr} Soll{expr}Kann"]
        n_abbr = expr.count("P") + expr.count("UB")
        for vi, s in enumerate(variants):
            for table in range(len(TABLES)):
                for fp, ft in (FLAGS if (fam == "small" or vi == 0) else FLAGS[:1]):
                    if fam != "small" and (fp, ft) != (True, True) and table not in (3, 4):
                        continue
                    vs = check_case(s, table, fp, ft)
                    r.evaluations += 1
                    r.states += 1
                    r.transitions += 2
                    r.traces += 1
                    if n_abbr >= 2:
                        r.nontrivial += 1
                    for v in vs:
                        r.violation(v["kind"], v["case"], v["expected"], v["observed"], v["msg"])
            if vi == 0:
                for table in (1, 3, 5):
                    vs = check_case(s, table, True, True, direct=True)
                    r.evaluations += 1
                    r.states += 1
                    r.transitions += 3
                    r.traces += 1
                    for v in vs:
                        r.violation(v["kind"], v["case"], v["expected"], v["observed"], v["msg"])
        r.sample({"expr": expr, "family": fam})
    return r


def replay(case):
    if "orders" in case:
        vloop, factory, observe, want, expr, pk, sub = _orders_setup(case["orders"])
        out = observe(vloop.run_schedule(factory, case["choices"]))
        return [] if out == want else [{"kind": "not-the-substituted-tree/completion-order", "case": case, "expected": want[:400],
                                         "observed": out[:400]}]
    if case.get("versions"):
        from mc import impl_modes as M

        try:
            return check_versions(case["expr"], *case["versions"])
        finally:
            M.restore()
    try:
        return check_case(case["expr"], case["table"], case["resolve_packages"], case["replace_time_conditions"], case.get("direct", False),
                          case.get("mode"))
    finally:
        if case.get("mode"):
            from mc import impl_modes as M

            M.restore()
