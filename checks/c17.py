"""C17 — value pools offer exactly the admissible qualifiers and judge input by them (E1)."""
import itertools

from checks import _ahb as H
from mc.ref import validation as R7
from mc.runner import Result

ID = "C17"
TITLE = "Value pools offer exactly the admissible qualifiers and judge input by them"
ENGINE = "e1-bounded-enumeration"

# role placeholders: {f} = the key that is FULFILLED under the content evaluation result, {u} UNFULFILLED, {q} UNKNOWN
ENTRY_MENU = ["X [{f}]", "X [{u}]", "X [{q}]", "X [501]", "X [{f}] O [501]", "X", "Muss [{u}] Kann [{f}]", "X [1P]"]
# "[1P]" is a package whose expression depends on the package-table variant of the execution: the SAME pool is validated under
# different tables within one process (a package is context, not part of the expression string)
PACKAGE_TABLES = [{"1P": "[{f}]"}, {"1P": "[{u}] O [{q}]"}, {"1P": "[{f}] U [{u}]"}]
QUALS = ["E01", "Z02", "A3", "B4"]
SEGMENTS = [("IS_REQUIRED", "Muss"), ("IS_OPTIONAL", "Kann"), ("IS_FORBIDDEN", "Muss [{u}]")]
BOUNDS = {"quick": {"max_size": 3, "cers": 2, "interleave": 1}, "thorough": {"max_size": 4, "cers": 6, "interleave": 1}}


def describe(tier):
    b = BOUNDS[tier]
    return {
        "rule": f"every value pool of size 0..{b['max_size']} whose entry expressions range over ALL tuples from the 8-entry menu {ENTRY_MENU} "
                "(fulfilled, unfulfilled, undetermined, neutral-only, invalid, bare, two-part) x every entered input in {None, '', each "
                "qualifier, foreign values incl. substrings, other letter case and a qualifier with surrounding whitespace} x segment status in {required, optional, forbidden} through validate_data_element_valuepool "
                f"directly AND through validate_segment ('Muss' / 'Kann' / 'Muss [2]') x {b['cers']} content evaluation results; plus pools of "
                "size 5 in which entries share expressions in interleaved order, and WIDE pools of 6, 7, 9 and 12 entries that are all "
                "unfulfilled (fulfilled) except at <= 2 positions (deviation-bounded); entries that use a package are validated under three "
                "different package tables within one process. Oracle: offered values == pool-ordered qualifiers whose "
                "own evaluation is fulfilled (a single entry is always offered; an invalid entry is selectable), compared as an ORDERED "
                "list; accepted <=> offered (status *_AND_FILLED, flag True); a non-empty value that is not offered is flagged (flag False) "
                "and reported *_AND_EMPTY; nothing offered => exactly IS_FORBIDDEN whatever was entered; forbidden segment => IS_FORBIDDEN "
                "(direct call) / element not reported (through the segment). Pools that list a qualifier TWICE (5 qualifier patterns x all expression tuples from a 4-entry menu): offered once iff one of its lines is fulfilled. E3 family: a segment with two 3-entry pools and a free-text element, SUSPENDING "
                "evaluators, all completion orders (quick: <= 2 deviations) on the virtual event loop: every schedule's result list equals the zero-yield run and the "
                "run with non-suspending evaluators. Non-trivial = pools with >= 2 entries.",
        "bounds": b,
        "exhaustive": True,
        "assumptions": ["a qualifier listed twice is offered (once) if any of its lines is fulfilled; the meaning reported for it is not judged then"],
    }


# E3 family: pools validated with SUSPENDING evaluators (entries, the sibling free-text element and a second pool pending together)
ORD_POOLS = [["X [1]", "X [2]", "X [1] U [501]"], ["X [2]", "X [1]", "X"], ["X [1P]", "X [1]", "X [2] O [501]"], ["X [1]", "X [1]", "X [1]"]]


def _orders_model(item):
    entries = [{"q": QUALS[i], "expr": e} for i, e in enumerate(ORD_POOLS[item["pool"]])]
    second = [{"q": QUALS[i], "expr": e} for i, e in enumerate(ORD_POOLS[(item["pool"] + 1) % len(ORD_POOLS)])]
    seg = {"kind": "segment", "id": "S", "expr": "Muss", "elements": [
        {"kind": "pool", "id": "S.P0", "input": item["input"], "entries": entries},
        {"kind": "free", "id": "S.F", "expr": "Muss [1][901]", "input": "x"},
        {"kind": "pool", "id": "S.P1", "input": QUALS[1], "entries": second}]}
    return [{"kind": "group", "id": "G", "expr": "Muss [1]", "groups": [], "segments": [seg]}]


def plan(tier, seed):
    b = BOUNDS[tier]
    items = []
    for d in range(5):
        items.append({"fam": "duplicates", "quals": d, "cer": 0})
    for pool in range(len(ORD_POOLS)):
        for inp in (None, QUALS[0], QUALS[1], "ZZ9"):
            items.append({"fam": "orders", "pool": pool, "input": inp, "order_bound": 2 if tier == "quick" else None})
    for cer in range(b["cers"]):
        for size in range(0, b["max_size"] + 1):
            if size <= 2:
                items.append({"cer": cer, "size": size, "first": None})
            else:
                for first in itertools.product(range(len(ENTRY_MENU)), repeat=size - 2):
                    items.append({"cer": cer, "size": size, "first": list(first)})
        items.append({"cer": cer, "size": 5, "first": "interleaved"})
        for size in (6, 7, 9, 12):
            items.append({"cer": cer, "size": size, "first": "wide"})
    return items


def worker_init():
    H.init()


_OWN = {}


def check_case(exprs, inp, seg, cer, via, pv=0, quals=None):
    """via = 'direct' (validate_data_element_valuepool) or 'segment' (validate_segment)"""
    V = H.init()
    I = H.I
    out = []
    roles = {"FU?".index(st): k for k, st in zip(("1", "2", "3"), H.PERMS[cer])}
    rk = {"f": roles[0], "u": roles[1], "q": roles[2]}
    # the meaning of a qualifier is free text: '' for every second entry
    entries = [{"q": QUALS[i] if i < len(QUALS) else f"Q{i}", "expr": e.format(**rk),
                "meaning": "" if (i + len(exprs)) % 2 else "Bedeutung " + (QUALS[i] if i < len(QUALS) else f"Q{i}")} for i, e in enumerate(exprs)]
    if quals is not None:
        # explicit qualifiers (a qualifier may be listed twice); the meaning is a function of the qualifier then
        entries = [{"q": q, "expr": e.format(**rk), "meaning": "" if sum(map(ord, q)) % 2 else "Bedeutung " + q} for q, e in zip(quals, exprs)]
    meaning_of = {e["q"]: e["meaning"] for e in entries}
    pool = {"kind": "pool", "id": "DE", "input": inp, "entries": entries}
    seg_status, seg_expr = SEGMENTS[seg]
    seg_expr = seg_expr.format(**rk)
    case = {"exprs": list(exprs), "input": inp, "segment": seg, "cer": cer, "via": via, "pv": pv, "quals": quals}
    packages = {k: v.format(**rk) for k, v in PACKAGE_TABLES[pv].items()}

    def envf():
        e = H.env(cer)
        e.packages = dict(packages)
        return e

    def own(expr, text):
        key = (expr, text, cer, pv)
        if key not in _OWN:
            _OWN[key] = V.own_evaluation(expr, text, envf())
        return _OWN[key]

    exp_status, exp_flag, exp_off = R7.pool_result(pool, seg_status, own)

    def v(kind, exp, obs, msg=""):
        out.append({"kind": kind, "case": case, "expected": exp, "observed": obs,
                    "msg": msg or f"pool {[(e['q'], e['expr']) for e in entries]} input={inp!r} segment={seg_status}"})

    if via == "direct":
        def call():
            el = V.build_element(pool)
            return V.observe([I.run(V.validate_data_element_valuepool(el, V.STATUS[seg_status]), envf())])[0]

        r = I.try_call(call)
    else:
        def call():
            s = V.build_segment({"kind": "segment", "id": "SEG", "expr": seg_expr, "elements": [pool]})
            return V.observe(I.run(V.validate_segment(s), envf()))

        r = I.try_call(call)
    if r[0] == "exc":
        v("raised", "a result", r[1])
        return out
    if via == "segment":
        res = r[1]
        if seg_status == "IS_FORBIDDEN":
            if len(res) != 1:
                v("reported-below-forbidden-segment", 1, len(res))
            return out
        if len(res) != 2:
            v("element-not-reported", 2, len(res))
            return out
        o = res[1]
    else:
        o = r[1]
    if seg_status == "IS_FORBIDDEN":
        if o["status"] != "IS_FORBIDDEN":
            v("forbidden-segment-not-forbidden", "IS_FORBIDDEN", o["status"])
        return out
    if (o["offered"] or []) != exp_off:
        kind = "offered-values/order" if sorted(o["offered"] or []) == sorted(exp_off) else "offered-values"
        v(kind, exp_off, o["offered"])
        return out
    if (o["meanings"] or {}) != {q: meaning_of[q] for q in exp_off}:
        v("offered-values/meaning", {q: meaning_of[q] for q in exp_off}, o["meanings"])
        return out
    if not exp_off:
        if o["status"] != "IS_FORBIDDEN":
            v("nothing-offered-not-forbidden", "IS_FORBIDDEN", o["status"])
        return out
    if not o["status"].endswith(exp_status[1:]):
        v("input-judgement/status", exp_status, o["status"])
    elif o["format"] is not exp_flag:
        v("input-judgement/flag", exp_flag, o["format"])
    return out


def _inputs(n):
    # foreign values incl. substrings of single qualifiers and of the comma-joined list of qualifiers
    return [None, ""] + [QUALS[i] if i < len(QUALS) else f"Q{i}" for i in range(n)] + ["ZZ9", "E0", "0", "01, Z02", ", ", "e01",
                                                                                           QUALS[0] + " ", " " + QUALS[1], QUALS[0] + "\n", " "]


def _orders_violations(base, out, plain):
    import json

    vs = []
    if out != base:
        vs.append(("depends-on-completion-order", json.loads(base), json.loads(out)))
    if base != plain:
        vs.append(("suspending-evaluators-change-the-result", json.loads(plain), json.loads(base)))
    return vs


def run_item(item):
    H.init()
    r = Result()
    if item.get("fam") == "orders":
        import json

        groups = _orders_model(item)
        vloop, factory_for, observe, base, exp = H.explore_validation(groups, 0, True, item["order_bound"])
        plain = json.dumps(list(H.V.run_validation(groups, H.env(0), True)), ensure_ascii=False, default=repr)
        r.evaluations += exp.schedules
        r.states += exp.decision_points
        r.transitions += exp.decision_points
        r.traces += exp.schedules
        r.nontrivial += max(0, len(exp.completion_traces) - 1)
        r.stat("schedules", exp.schedules)
        for out in set(exp.outcomes) | {base}:
            case = {"orders": item, "choices": exp.first_schedule_of_outcome.get(out, []), "zero_yield": out not in exp.outcomes}
            for kind, e, o in _orders_violations(base, out, plain):
                r.violation(kind, case, e, o, f"pool {ORD_POOLS[item['pool']]} input {item['input']!r}")
        # the zero-yield / plain run itself is judged by the pool oracle through the direct family: same pool, same input
        for x in check_case(ORD_POOLS[item["pool"]], item["input"], 0, 0, "segment"):
            r.violation(x["kind"], x["case"], x["expected"], x["observed"], x["msg"])
        r.sample({"orders": item, "schedules": exp.schedules})
        return r
    if item.get("fam") == "duplicates":
        quals = DUP_QUALS[item["quals"]]
        for exprs in itertools.product(DUP_MENU, repeat=len(quals)):
            for inp in (None, "A1", "B2", "ZZ9"):
                for seg in (0, 1):
                    for via in ("direct", "segment"):
                        vs = check_case(list(exprs), inp, seg, item["cer"], via, 0, quals)
                        r.evaluations += 1
                        r.states += 1
                        r.transitions += 1
                        r.traces += 1
                        r.nontrivial += 1
                        for x in vs:
                            r.violation(x["kind"], x["case"], x["expected"], x["observed"], x["msg"])
        r.sample({"pool_qualifiers": quals})
        return r
    size = item["size"]
    if item["first"] == "interleaved":
        menus = [["X [{f}]", "X", "X [{u}]", "X [{f}]", "X"], ["X [{u}]", "X [{f}]", "X [{u}]", "X [{f}]", "X [501]"],
                 ["X", "X [{f}]", "X", "X [{f}]", "X [{q}]"], ["Muss [{u}] Kann [{f}]", "X [{f}]", "Muss [{u}] Kann [{f}]", "X [{u}]", "X [{f}]"]]
    elif item["first"] == "wide":
        # wide pools, deviation-bounded: every entry unfulfilled (resp. fulfilled) except at <= 2 positions
        menus = []
        for base, other in (("X [{u}]", "X [{f}]"), ("X [{f}]", "X [{u}]"), ("X [{u}]", "X [1P]")):
            menus.append([base] * size)
            for i in range(size):
                one = [base] * size
                one[i] = other
                menus.append(one)
                for j in range(i + 1, size):
                    two = list(one)
                    two[j] = other
                    menus.append(two)
    elif item["first"] is None:
        menus = itertools.product(ENTRY_MENU, repeat=size)
    else:
        pre = [ENTRY_MENU[i] for i in item["first"]]
        menus = (pre + list(rest) for rest in itertools.product(ENTRY_MENU, repeat=2))
    for exprs in menus:
        exprs = list(exprs)
        inputs = _inputs(len(exprs))
        if item["first"] == "wide":
            inputs = [None, QUALS[0], f"Q{len(exprs) - 1}", f"Q{len(exprs) - 6}" if len(exprs) > 6 else QUALS[1], "ZZ9"]
        for inp in inputs:
            for seg in range(3):
                for via, pv in (("direct", 0), ("segment", 0)) + ((("direct", 1), ("direct", 2)) if "X [1P]" in exprs else ()):
                    vs = check_case(exprs, inp, seg, item["cer"], via, pv)
                    r.evaluations += 1
                    r.states += 1
                    r.transitions += 1
                    r.traces += 1
                    if len(exprs) >= 2:
                        r.nontrivial += 1
                    for x in vs:
                        r.violation(x["kind"], x["case"], x["expected"], x["observed"], x["msg"])
        r.sample({"pool": exprs}, limit=2)
    return r


DUP_QUALS = [["A1", "A1"], ["A1", "B2", "A1"], ["A1", "A1", "B2"], ["B2", "A1", "A1"], ["A1", "A1", "A1"]]
DUP_MENU = ["X [{f}]", "X [{u}]", "X", "X [{f}] O [501]"]


def replay(case):
    if "orders" in case:
        import json

        item = case["orders"]
        groups = _orders_model(item)
        vloop, factory_for, observe, base, _ = H.explore_validation(groups, 0, True, "none")
        plain = json.dumps(list(H.V.run_validation(groups, H.env(0), True)), ensure_ascii=False, default=repr)
        out = base if case.get("zero_yield") else observe(vloop.run_schedule(factory_for(False), case["choices"]))
        return [{"kind": k, "case": case, "expected": e, "observed": o} for k, e, o in _orders_violations(base, out, plain)]
    return check_case(case["exprs"], case["input"], case["segment"], case["cer"], case["via"], case.get("pv", 0), case.get("quals"))
