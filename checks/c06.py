"""C06 — expression validity is structural; validity check and evaluation agree (E1, R4)."""
import itertools

from checks import _exprs as X
from mc.enum import asts as A
from mc.ref import reqeval as R3
from mc.runner import Result

ID = "C06"
TITLE = "Expression validity is structural; validity check and evaluation agree"
ENGINE = "e1-bounded-enumeration"

BOUNDS = {"quick": [[1, "all"], [2, "all"], [3, "all"]], "thorough": [[1, "all"], [2, "all"], [3, "all"], [4, "all"]]}


def describe(tier):
    return {
        "rule": f"every well-formed AST in domain D - valid AND invalid - with (leaves, labelling) in {BOUNDS[tier]} x ALL 3^m assignments to the "
                "requirement keys (evaluate_requirement_constraint_tree) and x ALL 3^m*2^n assignments to requirement and format keys "
                "(evaluate_ahb_expression_tree of 'Muss <e>', of the two-part 'Muss [v] Soll <e>' and of 'Muss <e> Kann [v]' with a fresh "
                "requirement key v). Oracle: InvalidExpressionError is raised under every assignment iff the structural criterion R4 says "
                "invalid, and under none otherwise; is_valid_expression('Muss <e>', setter) - called with the string and with the resolved tree - returns (True, None) resp. (False, non-empty "
                "reason) accordingly; in the quick tier additionally all ASTs with 4 leaves and distinct keys through the transformer entry "
                "point and the validity check only (the setter writes a ContextVar read by the harness evaluators; expressions with <= 3 leaves also with the library's "
                "ContentEvaluationResult-based evaluators and a setter that stores the dumped result for the injected provider), also for the two-part forms. "
                "The validity check is also run on one valid and one invalid expression with 6 and 8 (thorough: 9) distinct requirement keys "
                "(up to 3^9*2 content evaluation results). Non-trivial = expressions with >= 1 O/X operator. Also 8 expressions that contain several SPELLINGS of one key number ([1], [01], [001]) - different keys for every evaluator - through the harness and the ContentEvaluationResult-based evaluators.",
        "bounds": {"sizes": BOUNDS[tier]},
        "exhaustive": True,
        "assumptions": ["I6: is_valid_expression is exercised with AHB expressions (its documented input)"],
    }


def plan(tier, seed):
    items = []
    # the documented usage of is_valid_expression: ContentEvaluationResult-based evaluators + a setter that stores the generated
    # content evaluation result where the injected provider finds it
    for n in (1, 2, 3) if tier == "quick" else (1, 2, 3, 4):
        parts = {1: 1, 2: 1, 3: 8, 4: 64}[n]
        for p in range(parts):
            items.append({"n": n, "lab": "all" if n <= 2 else "distinct", "part": p, "parts": parts, "seed": seed, "cer_mode": True})
    # MANY distinct keys (the validity check enumerates 3^m * 2^n content evaluation results): chains of m requirement keys
    for m in (6, 8) if tier == "quick" else (6, 8, 9):
        for valid in (True, False):
            items.append({"many_keys": m, "valid": valid, "seed": seed})
    # several SPELLINGS of one key number in one expression ([1] and [01] are different keys for every evaluator: the key is the
    # token text) - through the harness evaluators and the library's ContentEvaluationResult-based ones
    for e in range(len(SPELLING_EXPRS)):
        items.append({"spellings": e, "seed": seed})
    if tier == "quick":
        # one size beyond the full bound, distinct keys: transformer entry point under all RC assignments + the validity check
        for p in range(128):
            items.append({"n": 4, "lab": "distinct", "part": p, "parts": 128, "seed": seed, "light": True})
    for n, lab in BOUNDS[tier]:
        parts = {1: 1, 2: 4, 3: 64, 4: 1024}[n]
        for p in range(parts):
            items.append({"n": n, "lab": lab, "part": p, "parts": parts, "seed": seed})
    return items


SPELLING_EXPRS = ["[1] U [01]", "[1] O [01] U [501]", "([1] U [01]) O [501]", "[01] X [0501]", "[1][901] U [01][0901]", "[001] U [1] O [01] X [501]",
                  "[2005] U [02005] U [0501]", "[0501] O [1] U [01]"]


def worker_init():
    X.init()


def _setter(cer):
    I = X.I
    I.ENV.set(I.Env(rc={k: I.STATE_NAME[v] for k, v in cer.requirement_constraints.items()},
                    fc={k: (v.format_constraint_fulfilled, v.error_message) for k, v in cer.format_constraints.items()},
                    hints=dict(cer.hints)))


def check_expr(expr, seed, light=False):
    I = X.init()
    out = []
    pr = X.parse(expr)
    if pr[0] == "exc":
        return [{"kind": "parse-failed", "case": {"expr": expr, "seed": seed}, "expected": "tree", "observed": pr[1], "msg": expr}], 0
    _, T, tt = pr
    if not R3.in_domain(tt):
        raise RuntimeError(f"harness error: {expr!r} not in domain after parsing")
    valid = R3.valid(tt)
    rckeys = R3.keys_of(tt, "rc")
    fckeys = R3.keys_of(tt, "fc")
    case = {"expr": expr, "seed": seed}
    n = 0
    # (1) the transformer entry point, all RC assignments
    for a in X.assignments(rckeys):
        n += 1
        r = X.eval_tree(T, tt, a)
        raised = r[0] == "exc" and r[1] == "InvalidExpressionError"
        if r[0] == "exc" and not raised:
            out.append({"kind": "tree-eval-other-exception", "case": dict(case, assign=a), "expected": "value or InvalidExpressionError",
                        "observed": r[1], "msg": expr})
        elif raised != (not valid):
            out.append({"kind": "validity-depends-on-state" if valid is False else "valid-expression-raised",
                        "case": dict(case, assign=a), "expected": "InvalidExpressionError" if not valid else "a value",
                        "observed": r[1], "msg": f"{expr} under {a}"})
            break
    # (2) evaluate_ahb_expression_tree, all RC x FC assignments, three AHB wrappings
    pools = X.pools(seed)
    v = [k for k in pools["rc"] if k not in rckeys][0]
    forms = [("single", f"Muss {expr}", rckeys), ("second-part", f"Muss [{v}] Soll {expr}", rckeys + [v]),
             ("first-part", f"Muss {expr} Kann [{v}]", rckeys + [v])]
    if light:
        forms = forms[:1]
    for fname, ahb, keys in forms:
        rt = I.try_call(lambda: I.run(I.parse_expression_including_unresolved_subexpressions(ahb), I.Env()))
        if rt[0] == "exc":
            out.append({"kind": "resolver-failed", "case": dict(case, form=fname), "expected": "tree", "observed": rt[1], "msg": ahb})
            continue
        tree = rt[1]
        bad = False
        for a in ([] if light else X.assignments(keys)):
            for fv in itertools.product((True, False), repeat=len(fckeys)):
                n += 1
                env = X.env_for(tt, a, fc={k: (b, None if b else "m") for k, b in zip(fckeys, fv)})
                r = I.try_call(lambda: I.run(I.evaluate_ahb_expression_tree(tree), env))
                raised = r[0] == "exc" and r[1] == "InvalidExpressionError"
                if r[0] == "exc" and not raised:
                    out.append({"kind": "ahb-eval-other-exception", "case": dict(case, form=fname, assign=a, fc=list(fv)),
                                "expected": "result or InvalidExpressionError", "observed": r[1], "msg": ahb})
                    bad = True
                elif raised != (not valid):
                    out.append({"kind": "ahb-eval-validity/" + fname, "case": dict(case, form=fname, assign=a, fc=list(fv)),
                                "expected": "InvalidExpressionError" if not valid else "a result",
                                "observed": r[1] if r[0] == "exc" else "a result", "msg": f"{ahb} under {a}"})
                    bad = True
                if bad:
                    break
            if bad:
                break
        # (3) the validity check
        n += 1
        r = I.try_call(lambda: I.run(I.is_valid_expression(ahb, _setter), I.Env()))
        if r[0] == "exc":
            out.append({"kind": "is-valid-raised", "case": dict(case, form=fname), "expected": str(valid), "observed": r[1], "msg": ahb})
        else:
            res = r[1]
            ok = (res == (True, None)) if valid else (isinstance(res, tuple) and len(res) == 2 and res[0] is False
                                                      and isinstance(res[1], str) and res[1] != "")
            if not ok:
                out.append({"kind": "is-valid-wrong/" + fname, "case": dict(case, form=fname),
                            "expected": "(True, None)" if valid else "(False, reason)", "observed": repr(res)[:200], "msg": ahb})
        # (3b) the validity check called with the resolved TREE instead of the string (documented second input form)
        n += 1
        r = I.try_call(lambda: I.run(I.is_valid_expression(tree, _setter), I.Env()))
        res = r[1] if r[0] == "ok" else None
        ok = r[0] == "ok" and ((res == (True, None)) if valid else (isinstance(res, tuple) and len(res) == 2 and res[0] is False
                                                                     and isinstance(res[1], str) and res[1] != ""))
        if not ok:
            out.append({"kind": "is-valid-wrong/tree-input", "case": dict(case, form=fname), "expected": "(True, None)" if valid else "(False, reason)",
                        "observed": repr(res)[:200] if r[0] == "ok" else r[1], "msg": ahb + " (tree input)"})
    return out, n


def check_expr_cer_mode(expr):
    from mc import impl_modes as M

    I = X.init()
    out = []
    tt = X.parse(expr)[2]
    valid = R3.valid(tt)
    ahb = f"Muss {expr}"
    case = {"expr": expr, "cer_mode": True}
    try:
        r = I.try_call(lambda: M.run_is_valid_cer(ahb))
    finally:
        M.restore()
    if r[0] == "exc":
        out.append({"kind": "is-valid-raised/cer-evaluators", "case": case, "expected": str(valid), "observed": r[1], "msg": ahb})
    else:
        res = r[1]
        ok = (res == (True, None)) if valid else (isinstance(res, tuple) and len(res) == 2 and res[0] is False
                                                  and isinstance(res[1], str) and res[1] != "")
        if not ok:
            out.append({"kind": "is-valid-wrong/cer-evaluators", "case": case, "expected": "(True, None)" if valid else "(False, reason)",
                        "observed": repr(res)[:200], "msg": ahb})
    return out, 1


def check_many_keys(m, valid):
    """'Muss ([k1] U ... U [km])[950] O <x>' with x = a hint (invalid) / a further requirement key (valid)"""
    I = X.init()
    keys = [str(k) for k in (1, 2, 3, 4, 5, 6, 7, 499, 2000)[:m]]
    expr = "Muss (" + " U ".join(f"[{k}]" for k in keys) + ")[950] O " + (f"[{keys[0]}]" if valid else "[501]")
    case = {"many_keys": m, "valid": valid, "expr": expr}
    out = []
    r = I.try_call(lambda: I.run(I.is_valid_expression(expr, _setter), I.Env(), horizon=600))  # 3^m*2 evaluations take a while
    if r[0] == "exc":
        out.append({"kind": "is-valid-raised", "case": case, "expected": str(valid), "observed": r[1], "msg": expr})
    else:
        res = r[1]
        ok = (res == (True, None)) if valid else (isinstance(res, tuple) and len(res) == 2 and res[0] is False and isinstance(res[1], str) and res[1])
        if not ok:
            out.append({"kind": "is-valid-wrong/many-keys", "case": case, "expected": "(True, None)" if valid else "(False, reason)",
                        "observed": repr(res)[:200], "msg": expr})
    return out, 3 ** m * 2


def run_item(item):
    X.init()
    r = Result()
    if "many_keys" in item:
        vs, n = check_many_keys(item["many_keys"], item["valid"])
        r.evaluations += 1
        r.states += 1
        r.transitions += n
        r.traces += 1
        r.nontrivial += 1
        r.outcomes.add(item["valid"])
        for v in vs:
            r.violation(v["kind"], v["case"], v["expected"], v["observed"], v["msg"])
        r.sample({"many_keys": item["many_keys"], "valid": item["valid"], "content_evaluation_results": n})
        return r
    if "spellings" in item:
        expr = SPELLING_EXPRS[item["spellings"]]
        for vs, n in (check_expr(expr, item["seed"]), check_expr_cer_mode(expr)):
            r.evaluations += n
            r.states += n
            r.transitions += n
            r.nontrivial += 1
            for v in vs:
                r.violation(v["kind"], v["case"], v["expected"], v["observed"], v["msg"])
        r.traces += 1
        r.sample({"expr": expr, "spellings": True})
        return r
    pools = X.pools(item["seed"])
    i = -1
    for ast in A.asts(item["n"], item["lab"], pools={k: v[:5] for k, v in pools.items()}):
        i += 1
        if i % item["parts"] != item["part"]:
            continue
        expr = X.render(ast, item["seed"])
        if item.get("cer_mode"):
            vs, n = check_expr_cer_mode(expr)
        else:
            vs, n = check_expr(expr, item["seed"], light=item.get("light", False))
        r.evaluations += n
        r.states += n
        r.transitions += n
        r.traces += 1
        if any(o in ("or", "xor") for o in _ops(ast)):
            r.nontrivial += 1
        r.stat("valid" if A.is_valid(ast) else "invalid")
        r.outcomes.add(A.is_valid(ast))
        for v in vs:
            r.violation(v["kind"], v["case"], v["expected"], v["observed"], v["msg"])
        r.sample({"expr": expr, "valid": A.is_valid(ast), "executions": n})
    return r


def _ops(t):
    if A.is_leaf(t):
        return []
    return [t[0]] + _ops(t[1]) + _ops(t[2])


def replay(case):
    if "many_keys" in case:
        return check_many_keys(case["many_keys"], case["valid"])[0]
    if case.get("cer_mode"):
        return check_expr_cer_mode(case["expr"])[0]
    return check_expr(case["expr"], case.get("seed", 0))[0]
