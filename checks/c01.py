"""C01 — precedence / grouping of condition expressions (E1, reference model R2)."""
import itertools

from mc.enum import surface as S
from mc.ref import condparse as R2
from mc.runner import Result

ID = "C01"
TITLE = "Condition expressions are grouped by the documented operator precedence"
ENGINE = "e1-bounded-enumeration"

BOUNDS = {
    "quick": {"chain_n": 7, "br_n": 4, "br_pairs": 3, "spell_n": 4, "ws_n": 2, "redundant_n": 3, "kinds_n": 3,
              "long": [[14, 1]]},
    "thorough": {"chain_n": 9, "br_n": 5, "br_pairs": 3, "spell_n": 5, "ws_n": 3, "redundant_n": 4, "kinds_n": 4,
                 "long": [[13, 2], [17, 1], [24, 1]]},
}
GAPS = ("", " ", "\t\n")


def describe(tier):
    b = BOUNDS[tier]
    return {
        "rule": "every well-formed surface string of the grammar E := T (op T)*, T := atom | (E), ops in {O,X,U,juxtaposition}: "
                f"(a) all bracket-free chains with <= {b['chain_n']} atoms (4^(n-1) operator sequences each n); (b) all strings with <= "
                f"{b['br_n']} atoms and <= {b['br_pairs']} bracket pairs; (c) all sequences over the 9 operator spellings + juxtaposition "
                f"for <= {b['spell_n']} atoms; (d) every assignment of a gap from {{'', ' ', '\\t\\n'}} to every position between "
                f"lexical tokens for <= {b['ws_n']} atoms (two gap values for the largest n) plus one all-gaps-padded variant of "
                f"every (a)/(b) string; (e) every complete operand / the root / every bracket content of every (b) string with <= "
                f"{b['redundant_n']} atoms wrapped in redundant brackets once and twice; (f) all 4^n atom-kind combinations "
                f"([n] [nP] [nPa..b] [UBi]) for <= {b['kinds_n']} atoms over all chains; (g) long chains [atoms, max deviations] in {b['long']}: "
                "one base operator spelling (each of the 10) everywhere except at the deviating positions (every position, "
                "every other spelling) - deviation-bounded; (h) ONE bracket pair at every position of 6-atom chains whose operator sequence deviates at <= 2 positions from "
                "a base operator (thorough: all 6-atom chains, and 7-/8-atom chains with <= 2 deviations); (i) all bracketed strings with 2-4 atoms whose keys have different digit lengths (8..11, 98..101, 998..1001). Oracle: the tree returned by "
                "parse_condition_expression_to_tree must be a binarisation of the n-ary precedence tree of the hand-written "
                "reference parser R2 that never regroups across a bracket (for variants: of the BASE string's reference tree). "
                "Non-trivial = at least two different operators or a bracket pair in the string.",
        "bounds": b,
        "exhaustive": True,
        "assumptions": ["ASCII digits and Lark's WS set only (I7)", "chains longer / nesting deeper than the bounds are not claimed"],
    }


def plan(tier, seed):
    b = BOUNDS[tier]
    items = []
    # (a) chains: partition by n and by the first two operators
    for n in range(1, b["chain_n"] + 1):
        if n <= 4:
            items.append({"fam": "chain", "n": n, "prefix": ""})
        else:
            for pre in itertools.product(S.OPS4, repeat=2 if n <= 7 else 3):
                items.append({"fam": "chain", "n": n, "prefix": "".join(pre)})
    # (b) bracketed
    for n in range(1, b["br_n"] + 1):
        for q in range(1, b["br_pairs"] + 1):
            tmpl = S.exprs_exact(n, q)
            chunk = 400
            for k in range(0, len(tmpl), chunk):
                items.append({"fam": "br", "n": n, "q": q, "lo": k, "hi": min(len(tmpl), k + chunk)})
    # (c) spellings
    for n in range(2, b["spell_n"] + 1):
        for first in range(10):
            items.append({"fam": "spell", "n": n, "first": first})
    # (d) whitespace
    for n in range(1, b["ws_n"] + 1):
        for ops in itertools.product(S.OPS4, repeat=n - 1):
            items.append({"fam": "ws", "n": n, "ops": "".join(ops), "gaps": 3 if n < max(3, b["ws_n"]) else 2})
    # (h) one bracket pair at every position of every 6-atom (thorough: 7-atom) chain
    #     quick: operator sequences with <= 2 deviations from one base operator; thorough: all sequences for 6 atoms, <= 2 deviations
    #     for 7 and 8 atoms
    for n, full in ((6, False),) if tier == "quick" else ((6, True), (7, False), (8, False)):
        for base in S.OPS4:
            for first in range(n - 1):
                items.append({"fam": "onebracket", "n": n, "base": base, "first": first, "full": full})
    # (i) keys whose numbers have different digit lengths (8, 9, 10, 11 / 98 .. 101 / 998 .. 1001) in all bracketed strings
    for base in (8, 98, 998):
        for n, q in ((2, 0), (2, 1), (3, 0), (3, 1), (4, 0), (4, 1)) + (((3, 2), (4, 2)) if tier == "thorough" else ()):
            items.append({"fam": "digits", "n": n, "q": q, "base": base})
    # (g) long chains, deviation bounded
    for n, maxdev in b["long"]:
        for base in range(10):
            for dev in range(1, maxdev + 1):
                if dev == 1:
                    items.append({"fam": "long", "n": n, "base": base, "dev": 1, "first": None})
                else:
                    for first in range(n - 2):
                        items.append({"fam": "long", "n": n, "base": base, "dev": 2, "first": first})
    # (e) redundant brackets
    for n in range(1, b["redundant_n"] + 1):
        for q in range(0, 3):
            tmpl = S.exprs_exact(n, q)
            chunk = 150
            for k in range(0, len(tmpl), chunk):
                items.append({"fam": "redundant", "n": n, "q": q, "lo": k, "hi": min(len(tmpl), k + chunk)})
    # (f) atom kinds
    for n in range(1, b["kinds_n"] + 1):
        for kinds in itertools.product(S.ATOM_KINDS, repeat=n):
            items.append({"fam": "kinds", "n": n, "kinds": list(kinds)})
    return items


_impl = None


def worker_init():
    global _impl
    from mc import impl

    _impl = impl


def check_string(s, base=None, fam=""):
    """returns list of violation dicts for one surface string"""
    if _impl is None:
        worker_init()
    case = {"s": s, "base": base, "fam": fam}
    try:
        ref = R2.parse(base if base is not None else s)
        if base is not None:
            R2.parse(s)  # the variant itself must be well-formed for the reference, too
    except R2.Reject as e:
        raise RuntimeError(f"harness error: enumerator produced a string the reference rejects: {s!r} / {base!r}: {e}")
    r = _impl.try_call(_impl.parse_condition_expression_to_tree, s)
    if r[0] == "exc":
        return [{"kind": "well-formed-rejected", "case": case, "expected": "a tree", "observed": r[1],
                 "msg": f"{s!r} is well-formed but the parser raised {r[1]}"}]
    t = _impl.tree_to_tuple(r[1])
    if not R2.matches(t, ref):
        return [{"kind": "grouping", "case": case, "expected": repr(ref), "observed": repr(t),
                 "msg": f"{s!r}: tree is not a binarisation of the reference precedence tree"}]
    return []


def _nontrivial(s):
    kinds = {R2.OPS.get(c) for c in s if c in R2.OPS}
    return len(kinds) >= 2 or "(" in s or ("][" in s.replace(" ", "") and kinds)


def _do(r, s, base=None, fam=""):
    vs = check_string(s, base, fam)
    r.evaluations += 1
    r.states += 1
    r.transitions += 1
    r.traces += 1
    if _nontrivial(s):
        r.nontrivial += 1
    for v in vs:
        r.violation(v["kind"], v["case"], v["expected"], v["observed"], v["msg"])
    r.sample({"s": s, "base": base, "fam": fam})


def _redundant_variants(ref):
    """all re-renderings of a reference tree with one extra redundant bracket pair (once and twice) around: the root,
    each operand of each n-ary node, the content of each bracket"""
    LET = {"or": "O", "xor": "X", "and": "U", "then": ""}

    def rend(t, mark, path, depth):
        """render t; if path == mark wrap it depth times"""
        k = t[0]
        if k == "br":
            s = "(" + rend(t[1], mark, path + (0,), depth) + ")"
        elif k == "cond":
            s = f"[{t[1]}]"
        elif k == "time":
            s = f"[{t[1]}]"
        elif k == "pkg":
            s = f"[{t[1]}{t[2] or ''}]"
        else:
            s = LET[k].join(rend(x, mark, path + (i,), depth) for i, x in enumerate(t[1]))
        if path == mark:
            s = "(" * depth + s + ")" * depth
        return s

    paths = []

    def walk(t, path):
        paths.append(path)
        if t[0] == "br":
            walk(t[1], path + (0,))
        elif t[0] in ("or", "xor", "and", "then"):
            for i, x in enumerate(t[1]):
                walk(x, path + (i,))

    walk(ref, ())
    out = []
    for p in paths:
        for d in (1, 2):
            out.append(rend(ref, p, (), d))
    return out


def run_item(item):
    if _impl is None:
        worker_init()
    r = Result()
    fam = item["fam"]
    if fam == "chain":
        n = item["n"]
        pre = item["prefix"]
        for ops in itertools.product(S.OPS4, repeat=n - 1 - len(pre)):
            tmpl = "A"
            for o in tuple(pre) + ops:
                tmpl += o + "A"
            s = S.render(tmpl)
            _do(r, s, fam="chain")
            _do(r, S.render(tmpl, gap=" "), base=s, fam="chain-padded")
    elif fam == "br":
        for tmpl in S.exprs_exact(item["n"], item["q"])[item["lo"]:item["hi"]]:
            s = S.render(tmpl)
            _do(r, s, fam="br")
            _do(r, S.render(tmpl, gap="\n "), base=s, fam="br-padded")
    elif fam == "spell":
        n = item["n"]
        allsp = [("O", x) for x in S.SPELLINGS["O"]] + [("X", x) for x in S.SPELLINGS["X"]] + \
                [("U", x) for x in S.SPELLINGS["U"]] + [("J", "")]
        for rest in itertools.product(range(10), repeat=n - 2):
            seq = [allsp[item["first"]]] + [allsp[k] for k in rest]
            tmpl = "A" + "".join(o + "A" for o, _ in seq)
            base = S.render(tmpl)
            s = S.render(tmpl, spell=[sp for _, sp in seq])
            _do(r, s, base=base, fam="spell")
    elif fam == "ws":
        n = item["n"]
        tmpl = "A" + "".join(o + "A" for o in item["ops"])
        base = S.render(tmpl)
        toks = S.lexical_tokens(base)
        gaps = GAPS[:item["gaps"]]
        for gs in itertools.product(gaps, repeat=len(toks) + 1):
            s = gs[0] + "".join(t + g for t, g in zip(toks, gs[1:]))
            _do(r, s, base=base, fam="ws")
        # packages with repeatability: whitespace between PACKAGE_KEY and REPEATABILITY
        if n == 1:
            for g1, g2, g3 in itertools.product(GAPS, repeat=3):
                _do(r, f"[{g1}7P{g2}0..3{g3}]", base="[7P0..3]", fam="ws-pkg")
                _do(r, f"[{g1}UB2{g3}]", base="[UB2]", fam="ws-time")
    elif fam == "onebracket":
        n = item["n"]
        base, first = item["base"], item["first"]
        seqs = set()
        if item["full"]:
            # all operator sequences whose FIRST non-base operator sits at position `first` (or none, for first == 0)
            for ops in itertools.product(S.OPS4, repeat=n - 1):
                dev = [k for k, o in enumerate(ops) if o != base]
                if (dev and dev[0] == first) or (not dev and first == 0):
                    seqs.add(ops)
        else:
            others = [o for o in S.OPS4 if o != base]
            if first == 0:
                seqs.add((base,) * (n - 1))
            for o1 in others:
                one = [base] * (n - 1)
                one[first] = o1
                seqs.add(tuple(one))
                for p2 in range(first + 1, n - 1):
                    for o2 in others:
                        two = list(one)
                        two[p2] = o2
                        seqs.add(tuple(two))
        for allops in sorted(seqs):
            for i in range(n):
                for j in range(i + 1, n):
                    if i == 0 and j == n - 1:
                        continue
                    tmpl = ""
                    for k in range(n):
                        tmpl += ("(" if k == i else "") + "A" + (")" if k == j else "") + (allops[k] if k < n - 1 else "")
                    _do(r, S.render(tmpl), fam="onebracket")
    elif fam == "digits":
        for tmpl in S.exprs_exact(item["n"], item["q"]):
            atoms = [f"[{item['base'] + k}]" for k in range(item["n"])]
            _do(r, S.render(tmpl, atoms=atoms), fam="digits")
            _do(r, S.render(tmpl, atoms=atoms[::-1]), fam="digits")
    elif fam == "long":
        allsp = [("O", x) for x in S.SPELLINGS["O"]] + [("X", x) for x in S.SPELLINGS["X"]] + \
                [("U", x) for x in S.SPELLINGS["U"]] + [("J", "")]
        n = item["n"]
        base = allsp[item["base"]]
        others = [a for a in allsp if a != base]
        if item["dev"] == 1:
            combos = [((p, o),) for p in range(n - 1) for o in others]
        else:
            combos = [((item["first"], o1), (p2, o2)) for o1 in others for p2 in range(item["first"] + 1, n - 1)
                      for o2 in others]
        for combo in combos:
            seq = [base] * (n - 1)
            for p, o in combo:
                seq[p] = o
            tmpl = "A" + "".join(o + "A" for o, _ in seq)
            s = S.render(tmpl, spell=[sp for _, sp in seq])
            _do(r, s, base=S.render(tmpl), fam="long")
    elif fam == "redundant":
        for tmpl in S.exprs_exact(item["n"], item["q"])[item["lo"]:item["hi"]]:
            base = S.render(tmpl)
            ref = R2.parse(base)
            for s in _redundant_variants(ref):
                _do(r, s, base=base, fam="redundant")
    elif fam == "kinds":
        n = item["n"]
        atoms = [S.atom_text(i, k) for i, k in enumerate(item["kinds"])]
        for tmpl in S.chains(n):
            _do(r, S.render(tmpl, atoms=atoms), fam="kinds")
        if n >= 2:
            for tmpl in S.exprs_exact(n, 1)[:: max(1, len(S.exprs_exact(n, 1)) // 40)]:
                _do(r, S.render(tmpl, atoms=atoms), fam="kinds-br")
    return r


def replay(case):
    return check_string(case["s"], case.get("base"), case.get("fam", ""))
