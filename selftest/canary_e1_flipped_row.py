"""E1 canary: an 'implementation' with one flipped truth-table row MUST be reported by the C03 oracle."""


def run():
    from checks import c03

    real = c03._apply

    def flipped(impl, f, opname, a, b):
        r = real(impl, f, opname, a, b)
        if opname == "or" and (a, b) == ("?", "F"):
            return "?"
        return r

    c03._apply = flipped
    try:
        vs = []
        for a in "FU?N":
            for b in "FU?N":
                vs += c03.check_pair("or", a, b)
        kinds = sorted({v["kind"] for v in vs})
    finally:
        c03._apply = real
    clean = sum(len(c03.check_pair("or", a, b)) for a in "FU?N" for b in "FU?N")
    ok = bool(vs) and clean == 0
    return ok, f"flipped row reported as {kinds}; unmodified implementation: {clean} violations"
