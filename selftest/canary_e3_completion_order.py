"""E3 canary: a coroutine that pairs keys with results in COMPLETION order MUST show more than one outcome under the
schedule explorer; the gather-based version must show exactly one; a deadlock must be reported as ScheduleError."""
import asyncio

from mc import vloop


def run():
    keys = ["a", "b", "c"]

    def bad(sched):
        async def one(k, out):
            await sched.point(k)
            out.append(k.upper())

        async def main():
            out = []
            await asyncio.gather(*[one(k, out) for k in keys])
            return dict(zip(keys, out))  # completion order leaks into the pairing

        return main()

    def good(sched):
        async def one(k):
            await sched.point(k)
            return k.upper()

        async def main():
            return dict(zip(keys, await asyncio.gather(*[one(k) for k in keys])))

        return main()

    def dead(sched):
        async def main():
            await asyncio.get_running_loop().create_future()

        return main()

    obs = lambda ex: repr(ex.result)  # noqa: E731
    eb = vloop.explore(bad, obs)
    eg = vloop.explore(good, obs)
    ee = vloop.explore(good, obs, early_bound=1)
    try:
        vloop.run_schedule(dead, [])
        deadlock = False
    except vloop.ScheduleError:
        deadlock = True
    # replaying one recorded schedule twice gives identical observations
    sched = eb.first_schedule_of_outcome[sorted(eb.outcomes)[-1]]
    same = obs(vloop.run_schedule(bad, sched)) == obs(vloop.run_schedule(bad, sched))
    ok = len(eb.outcomes) == 6 and eb.schedules == 6 and len(eg.outcomes) == 1 and eg.schedules == 6 and deadlock and same \
        and ee.schedules > eg.schedules and len(ee.outcomes) == 1
    return ok, (f"order-leaking zip: {len(eb.outcomes)} outcomes in {eb.schedules} schedules; gather: {len(eg.outcomes)} outcome in "
                f"{eg.schedules} schedules ({ee.schedules} with one early/batched completion); deadlock detected: {deadlock}; replay stable: {same}")
