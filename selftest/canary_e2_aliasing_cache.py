"""E2 canary: a toy parser whose cache hands out the cached object itself MUST be caught by the history BFS within 3 steps;
the same parser with a deep copy must pass."""
import copy

from mc import histories


def _make(parser_copy):
    cache = {}

    def parse(s):
        if s not in cache:
            cache[s] = ["and", [s[0]], [s[-1]]]
        return parser_copy(cache[s])

    return parse, cache


def _explore(parser_copy):
    def execute(history):
        parse, _cache = _make(parser_copy)
        handles = []
        for op in history:
            if op[0] == "P":
                handles = (handles + [parse(op[1])])[-1:]
            else:
                handles[0][op[1]].append("edited")
        viol = []
        for s in ("ab", "cd"):
            if parse(s) != ["and", [s[0]], [s[-1]]]:
                viol.append({"kind": "differs", "target": s})
        ops = [["P", "ab"], ["P", "cd"]] + ([["E", 1], ["E", 2]] if handles else [])
        return (repr(handles),), viol, ops

    return histories.bfs(execute, [], 3)


def run():
    bad = _explore(lambda t: list(t))  # shallow copy: children shared with the cache
    good = _explore(copy.deepcopy)
    ok = len(bad.violations) > 0 and len(good.violations) == 0 and good.states > 5
    first = bad.violations[0][0] if bad.violations else None
    return ok, f"shallow copy: first failing history {first}; deep copy: {good.states} states, {good.transitions} transitions, 0 violations"
