"""Adapter between the plain AHB models of mc.ref.validation and the real maus / ahbicht validation functions
(imports ahbicht and maus; used by C13-C17)."""
from maus.models.anwendungshandbuch import AhbMetaInformation, DeepAnwendungshandbuch
from maus.models.edifact_components import (
    DataElementDataType,
    DataElementFreeText,
    DataElementValuePool,
    Segment,
    SegmentGroup,
    ValuePoolEntry,
)

from mc import impl as I

from ahbicht.models.validation_values import RequirementValidationValue  # noqa: E402
from ahbicht.validation.validation import (  # noqa: E402
    validate_data_element_freetext,
    validate_data_element_valuepool,
    validate_deep_anwendungshandbuch,
    validate_segment,
    validate_segment_group,
    validate_segment_level,
)

STATUS = {v.value: v for v in RequirementValidationValue}


import attrs


# user code may derive its own classes from the maus model classes: every second object is an instance of a subclass
@attrs.define(auto_attribs=True, kw_only=True)
class UserFreeText(DataElementFreeText):
    pass


@attrs.define(auto_attribs=True, kw_only=True)
class UserValuePool(DataElementValuePool):
    pass


@attrs.define(auto_attribs=True, kw_only=True)
class UserSegment(Segment):
    pass


@attrs.define(auto_attribs=True, kw_only=True)
class UserSegmentGroup(SegmentGroup):
    pass


def _alt(ident):
    """deterministic per-node toggle (sum of the code points of the discriminator)"""
    return sum(map(ord, ident or "")) % 2 == 1


def build_element(el):
    sub = _alt(el["id"])
    if el["kind"] == "free":
        # the optional value type of the element: an input that looks like a date-time is typed DATETIME for every second
        # element (the type says nothing about how the format constraints are to see the input: they get what was entered)
        kw = {}
        if isinstance(el["input"], str) and el["input"][:2] == "20" and "T" in el["input"] and _alt((el["id"] or "") + "t"):
            kw["value_type"] = DataElementDataType.DATETIME
        return (UserFreeText if sub else DataElementFreeText)(discriminator=el["id"], ahb_expression=el["expr"], entered_input=el["input"],
                                                              data_element_id="1234", **kw)
    return (UserValuePool if sub else DataElementValuePool)(
        discriminator=el["id"], data_element_id="0333", entered_input=el["input"],
        # the meaning of a qualifier is free text and may be empty
        value_pool=[ValuePoolEntry(qualifier=e["q"], meaning=e.get("meaning", "" if _alt(e["q"] + (el["id"] or "")) else "Bedeutung " + e["q"]),
                                   ahb_expression=e["expr"]) for e in el["entries"]],
    )


def build_segment(s):
    return (UserSegment if _alt(s["id"]) else Segment)(discriminator=s["id"], ahb_expression=s["expr"],
                                                       data_elements=[build_element(e) for e in s["elements"]])


def build_group(g):
    # "no children" is written as None or as an empty list (both are legal for the Optional[List] fields)
    empty = [] if _alt(g["id"] + "x") else None
    return (UserSegmentGroup if _alt(g["id"]) else SegmentGroup)(
        discriminator=g["id"], ahb_expression=g["expr"], segment_groups=[build_group(x) for x in g["groups"]] or empty,
        segments=[build_segment(x) for x in g["segments"]] or empty)


def _number_lines(lines):
    """ahb_line_index as in a flat AHB: a group's line, then the lines of its OWN segments, then its sub groups (that is how the
    documents are written; the order validation reports in is the order of the object graph, whatever these numbers say)"""
    n = [0]

    def grp(g):
        g.ahb_line_index = n[0]
        n[0] += 1
        for s in g.segments or []:
            s.ahb_line_index = n[0]
            n[0] += 1 + len(s.data_elements)
        for sub in g.segment_groups or []:
            grp(sub)

    for g in lines:
        grp(g)


def build_ahb(groups):
    """a FRESH object graph per execution (validation mutates entered_input)"""
    lines = [build_group(g) for g in groups]
    if groups and _alt(groups[0]["id"] + str(len(groups[0]["segments"]) + 2 * len(groups[0]["groups"]))):
        _number_lines(lines)
    return DeepAnwendungshandbuch(meta=AhbMetaInformation(pruefidentifikator="11042"), lines=lines)


def observe(results):
    """list of ValidationResultInContext -> plain list"""
    out = []
    for r in results:
        v = r.validation_result
        d = {"id": r.discriminator, "status": str(v.requirement_validation), "hints": v.hints}
        if hasattr(v, "format_validation_fulfilled"):
            d["format"] = v.format_validation_fulfilled
            d["format_msg"] = v.format_error_message
            pv = getattr(v, "possible_values", None)
            d["offered"] = list(pv.keys()) if pv is not None else None
            d["meanings"] = dict(pv) if pv is not None else None
        out.append(d)
    return out


def run_validation(groups, env, soll_is_required, entry="deep", text_preset=None, parent=None):
    """('ok', observation) | ('exc', exception class name)"""

    def call():
        ahb = build_ahb(groups) if entry != "segment_root" else None
        if entry == "deep":
            coro = validate_deep_anwendungshandbuch(ahb, soll_is_required)
        elif entry == "segment_level":
            coro = validate_segment_level(ahb.lines[0], soll_is_required)
        elif entry == "segment_root":
            coro = validate_segment_level(build_segment(groups[0]), soll_is_required)
        elif entry == "segment":
            coro = validate_segment(ahb.lines[0].segments[0], soll_is_required=soll_is_required)
        elif entry == "group_direct":  # the documented parent status handed in by the caller
            coro = validate_segment_group(ahb.lines[0], STATUS[parent] if parent else None, soll_is_required)
        elif entry == "segment_direct":
            coro = validate_segment(ahb.lines[0].segments[0], STATUS[parent] if parent else None, soll_is_required)
        else:
            raise ValueError(entry)
        return observe(I.run(coro, env))

    r = I.try_call(call)
    if r[0] == "exc":
        return ("exc", r[1])
    return r


def own_evaluation(expr, text, env):
    """the node's own evaluation: its expression evaluated alone by the real functions"""
    async def go():
        I.text_to_be_evaluated_by_format_constraint.set(text)
        tree = await I.parse_expression_including_unresolved_subexpressions(expr, resolve_packages=True)
        return await I.evaluate_ahb_expression_tree(tree)

    r = I.try_call(lambda: I.run(go(), env))
    if r[0] == "exc":
        if r[1] == "InvalidExpressionError":
            return {"invalid": r[2].error_message}
        if r[1] == "NotImplementedError":
            return {"notimpl": str(r[2])[:80]}  # e.g. a package the resolver does not know
        raise RuntimeError(f"harness error: own evaluation of {expr!r} raised {r[1]}: {r[2]}")
    x = r[1]
    ind = x.requirement_indicator
    return {"ind": str(getattr(ind, "value", ind)), "ful": x.requirement_constraint_evaluation_result.requirement_constraints_fulfilled,
            "hints": x.requirement_constraint_evaluation_result.hints,
            "fc_ful": x.format_constraint_evaluation_result.format_constraints_fulfilled,
            "fc_msg": x.format_constraint_evaluation_result.error_message}
