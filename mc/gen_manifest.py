"""Regenerates /verif/MANIFEST.json from the check modules that exist (python -m mc.gen_manifest)."""
import importlib
import json
import os

VERIF = os.path.dirname(os.path.dirname(os.path.abspath(__file__)))

ENGINE_TEXT = {
    "e1-bounded-enumeration": "bounded-exhaustive enumeration of every input shape x every environment answer (assignment / "
                              "configuration) within stated bounds, each executed on the real code and compared with an "
                              "independent reference model (small-scope model checking of a sequential library)",
    "e2-history-bfs": "explicit-state breadth-first search over operation histories (parse / resolve / evaluate / edit a returned "
                      "tree / flood the cache) with canonical state hashing; every transition calls the real functions; an "
                      "invariant is evaluated in every state",
    "e3-vloop-schedules": "stateless depth-first exploration of ALL completion orders of the awaitables ahbicht gathers, on a "
                          "virtual asyncio event loop that owns the only scheduling nondeterminism; replay-from-scratch per schedule",
}


def main():
    props = [json.loads(l) for l in open(os.path.join(VERIF, "properties.jsonl"), encoding="utf-8")]
    checks = []
    not_applicable = []
    engines = {}
    for p in props:
        pid = p["id"]
        path = os.path.join(VERIF, "checks", pid.lower() + ".py")
        if not os.path.exists(path):
            not_applicable.append({"property_id": pid, "reason": "no check registered in this commit yet (model-checking "
                                   "check planned in DESIGN.md section 4; the technique applies)"})
            continue
        mod = importlib.import_module("checks." + pid.lower())
        engines.setdefault(mod.ENGINE, []).append(pid)
        m = getattr(mod, "MANIFEST", {})
        checks.append({
            "property_id": pid,
            "quick_cmd": f"./check {pid} --tier quick",
            "thorough_cmd": f"./check {pid} --tier thorough",
            "evidence_file": f"/verif/evidence/{pid}.json",
            "replay_cmd_template": f"./check {pid} --replay {{path}}",
            "engine": mod.ENGINE,
            "level_claimed": {
                "category": "model_checking",
                "text": m.get("level_text", ENGINE_TEXT[mod.ENGINE]),
                "design_ref": m.get("design_ref", f"DESIGN.md section 4, {pid}"),
            },
            "level_note": m.get("level_note", "Trusted base: the reference models under mc/ref (plain Python, no ahbicht import), the "
                                "enumerators under mc/enum, CPython, lark. Nothing outside the stated bounds is claimed."),
            "technique": m.get("technique", ENGINE_TEXT[mod.ENGINE].split(";")[0]),
        })
    manifest = {
        "version": 1,
        "setup_cmd": "./check --selftest",
        "hooks": {
            "guard": "HOCHFREQUENZ_AHBICHT_VERIF",
            "enable": "none needed: no hook or instrumentation was added to /repo; every nondeterminism source is owned from outside "
                      "(custom event loop, harness evaluators injected through the library's own `inject` bindings, fresh strings "
                      "per execution for the caches). The guard name is reserved only.",
            "baseline_off_cmd": "cd /repo && /venv/bin/python -m pytest -ra -q -p no:cacheprovider --timeout=900 "
                                "--continue-on-collection-errors",
            "source_commits": [],
            "add_only": True,
        },
        "engines": [
            {"name": n, "path": {"e1-bounded-enumeration": "mc/enum + mc/ref + checks", "e2-history-bfs": "mc/histories.py",
                                 "e3-vloop-schedules": "mc/vloop.py"}[n],
             "serves_properties": sorted(ps), "kind_free_text": ENGINE_TEXT[n]} for n, ps in sorted(engines.items())
        ],
        "checks": checks,
        "notes": "All checks execute the real implementation from /repo/src (current working tree; pure Python, nothing is cached "
                 "between runs). Repairs of genuine defects are the unguarded 'fix:' commits in /repo listed as 'fixed' in "
                 "/verif/known_findings.json.",
        "not_applicable": not_applicable,
    }
    with open(os.path.join(VERIF, "MANIFEST.json"), "w", encoding="utf-8") as f:
        json.dump(manifest, f, indent=1, ensure_ascii=False)
    print(f"MANIFEST.json: {len(checks)} checks, {len(not_applicable)} not yet registered")


if __name__ == "__main__":
    main()
