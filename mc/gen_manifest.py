"""Regenerates /verif/MANIFEST.json from the check modules that exist (python -m mc.gen_manifest)."""
import importlib
import json
import os

VERIF = os.path.dirname(os.path.dirname(os.path.abspath(__file__)))

ENGINE_TEXT = {
    "e1-bounded-enumeration": "bounded-exhaustive enumeration of every input shape x every environment answer (assignment / "
                              "configuration) within stated bounds, each executed on the real code and compared with an "
                              "independent reference model (small-scope model checking of a sequential library)",
    "e2-history-bfs": "explicit-state breadth-first search over operation histories (parse / resolve / evaluate / edit a returned "
                      "tree / flood the cache) with canonical state hashing; every transition calls the real functions; an "
                      "invariant is evaluated in every state",
    "e3-vloop-schedules": "stateless depth-first exploration of ALL completion orders of the awaitables ahbicht gathers, on a "
                          "virtual asyncio event loop that owns the only scheduling nondeterminism; replay-from-scratch per schedule",
}


LEVEL = {
    "C01": ("All well-formed surface strings up to the stated sizes (chains, brackets, spellings, whitespace, redundant brackets, atom kinds, long "
            "deviation-bounded chains) are parsed by the real parser and matched against the n-ary precedence tree of an independent reference "
            "parser; a violation is a concrete string. Right level: the property quantifies over programs, precedence comes from a heuristic "
            "Earley disambiguation, so only enumeration of inputs can decide it.",
            "reference parser mc/ref/condparse.py (hand-written, no lark), the enumerator mc/enum/surface.py"),
    "C02": ("All strings over a character and a token alphabet up to length 4/5, all edit-distance-1 neighbours of well-formed expressions, all "
            "near-miss atoms and indicator spellings go through the four entry points; acceptance is decided by the reference recogniser, "
            "rejections must be SyntaxError.", "reference recognisers R2/R5; interpretation I2 (sandwich for the AHB language), I7"),
    "C03": ("The complete finite domain (16 pairs, 64 triples per operator) is enumerated on the real enum operators, also a second time in reverse "
            "order and in child interpreters with other hash seeds: within the property's quantifier this is a complete check.",
            "literal truth tables mc/ref/logic4.py"),
    "C04": ("Every in-domain valid expression AST up to 4 (thorough 5) leaves x every assignment in {F,U,UNKNOWN}^k, through both entry points, "
            "through the shipped (DictBased, ContentEvaluationResult based with fresh / shared data object, JsonFile) and user-style evaluators, "
            "with keys in every relative order, flat chains up to 21 (33) keys, depth-2 histories (a first operation on a valid or invalid expression, "
            "then every evaluation) and under all completion orders of suspending evaluators, against the compositional reference evaluator.", "reference evaluator R3 (mc/ref/reqeval.py), R1, R8; the parse tree is the implementation's (C01's concern)"),
    "C05": ("Metamorphic relations (hint / FC / brackets / swap / UNKNOWN refinement) at every position of every base expression up to 3 (4) leaves "
            "x all assignments, also through the shipped providers and a plain-function hints provider: implementation against itself, no expected values.", "the AST enumerator; the relations as stated in the property"),
    "C06": ("Every in-domain AST (valid and invalid) up to 3 (4) leaves x all requirement and format assignments x three AHB wrappings; the "
            "structural criterion R4 must coincide with 'raises under every / no assignment' and with is_valid_expression (string and tree input, harness and "
            "CER-based evaluators, several spellings of one key number, hint nodes of user subclasses).", "R4 in mc/ref/reqeval.py"),
    "C07": ("Every valid expression with FC keys up to 4 (5) leaves x all RC assignments x all FC truth assignments; the returned string is re-parsed "
            "by the reference parser and its truth table compared with the direct reading.", "R2, R3; interpretation I1 (two accepted readings)"),
    "C08": ("Every FC expression up to 4 (5) leaves with every key labelling x all truth assignments, through the transformer, the async entry point, "
            "the shipped evaluators, plain / coroutine / mixed evaluate methods, shipped 931-935 next to custom keys, flat chains up to 21 (33) "
            "key occurrences and all completion orders; Boolean value under the documented precedence + message iff unfulfilled.", "R2 for the "
            "documented precedence"),
    "C09": ("Part sequences of 1-5 parts over all indicator spellings, whitespace and a 23-expression menu x content evaluation results, plus every "
            "ordered pair of an 18-expression menu (history); split and selection against the reference splitter and the parts' own evaluations.",
            "R5 (mc/ref/ahbsplit.py); interpretation I5"),
    "C10": ("All 1-3 (4) atom expressions over 8 abbreviation atoms x 8 package tables x flag combinations, many-occurrence chains, shipped resolvers "
            "and all completion orders of a suspending resolver, against textual bracketed substitution + real parser.", "R6 (mc/ref/subst.py); I3"),
    "C11": ("Explicit-state BFS over histories of parse / resolve / evaluate / edit / flood operations on the real functions with canonical state "
            "hashing; the invariant 'every parser result equals the cold-state snapshot' (incl. a 7-operand expression with operator runs) is evaluated in every state; "
            "edits include assignment to Token attributes, malformed siblings include the lower-case twin of a cached string.", "the cold-state snapshot "
            "taken through the public functions; whitespace-padded spellings give identical trees"),
    "C12": ("Stateless DFS over ALL completion orders (plus bounded early/batched completions) of the awaitables ahbicht gathers, on a virtual event "
            "loop that owns the only scheduling nondeterminism; every schedule's result equals the zero-yield baseline; the baseline itself is judged by absolute oracles (reference value, R6 substitution, "
            "solo runs of concurrent evaluations, no data handed to two evaluations). 13 harnesses incl. the library's CER-based evaluators, "
            "two format versions / a general and a specific format behind one provider, user-style evaluators with plain + coroutine methods that use their "
            "EvaluationContext, one long-lived evaluator across event loops, concurrent evaluations of equal and of different expressions.", "mc/vloop.py; asyncio "
            "exposes no other nondeterminism to this library"),
    "C13": ("Every AHB tree shape up to 5/6 nodes x every labelling from a 3-4 class menu, chains, wide and equal-name nodes x both flags, against the "
            "reference walk (document order, pruning, dominance tables, NotImplementedError rule); plus trees with siblings under all completion "
            "orders of suspending evaluators (virtual event loop).", "R7 (mc/ref/validation.py); the node's own "
            "evaluation is taken from the real evaluate_ahb_expression_tree"),
    "C14": ("Every tree shape up to 4 (5) nodes x every labelling containing SOLL x both flags: flag run == run on the rewritten AHB (both flags), "
            "four entry points (deep, segment level on a group and on a segment root, segment), plus call sequences in one context and validations with different flags in flight at once. Metamorphic, no expected values.", "R5 for the rewriting"),
    "C15": ("All completion orders for AHBs with 2-3 free-text elements in 7 layouts, shared FC key, package-delivered FCs, shipped constraints, "
            "ambient context preset, plain and coroutine constraint methods, date-time typed elements, two validations running concurrently: every element's result equals its solo validation and echoes its own input.", "mc/vloop.py"),
    "C16": ("Fault enumeration: every non-empty SUBSET of fault sites (nodes and pool entries) of every tree shape up to 4 (5) nodes carries one of 9 "
            "invalid expressions; all other nodes equal the 'Kann' run; plus every fault site of 4 shapes with suspending evaluators under all "
            "completion orders (<= 2 / 4 deviations).", "differential against the implementation on the 'Kann' AHB; I4"),
    "C17": ("All pools of size 0-3 (4) over an 8-entry menu x all inputs x segment status x two entry points, wide pools, changing package tables, pools with suspending evaluators under all completion orders; "
            "offered list (ordered), acceptance, flagging, forbidden rule.", "R7.pool_result; own evaluations from the real evaluator"),
    "C18": ("Every key 0..3000 (+ edge forms), every 1-2 (3) atom expression x flags x two package tables (one whose packages carry time conditions), all pairs for additivity, all (m,n) up to 4 (6) for the "
            "Cartesian product.", "R8 (literal ranges), R6+R2 for expected keys"),
    "C19": ("Every tree produced for all expressions up to 3 (4) atoms (condition, AHB, resolved), every generated CER, extracts, the field-value "
            "product of the result classes, results of the C09 menu under all permutations, whitespace variants inside AHB condition parts, deep trees, and every sequence of <= 3 (4) "
            "schema operations (rejected loads, validate, concise schemata) followed by round trips: load(dump(x)) == x and evaluate(load(dump(t))) == evaluate(t).",
            "equality as defined by the model classes; trees compared with token types"),
    "C20": ("Every second of DST switch days, a window around every whole hour of every day 1996-2037 (thorough: every minute), every offset on a "
            "15-/1-minute grid in 10 spellings for critical instants, call sequences in one context, 5 process time zones, all short garbage strings and boundary field products.", "R9 integer EU-rule "
            "(mc/ref/berlin.py); Python's fromisoformat decides what is a datetime with offset (I7)"),
}


def main():
    props = [json.loads(l) for l in open(os.path.join(VERIF, "properties.jsonl"), encoding="utf-8")]
    checks = []
    not_applicable = []
    engines = {}
    for p in props:
        pid = p["id"]
        path = os.path.join(VERIF, "checks", pid.lower() + ".py")
        if not os.path.exists(path):
            not_applicable.append({"property_id": pid, "reason": "no check registered in this commit yet (model-checking "
                                   "check planned in DESIGN.md section 4; the technique applies)"})
            continue
        mod = importlib.import_module("checks." + pid.lower())
        engines.setdefault(mod.ENGINE, []).append(pid)
        m = dict(getattr(mod, "MANIFEST", {}))
        if pid in LEVEL:
            m.setdefault("level_text", LEVEL[pid][0] + " Decided by exhaustive enumeration within the stated bounds on the real code (" + mod.ENGINE + ").")
            m.setdefault("level_note", "Trusted base: " + LEVEL[pid][1] + "; CPython, lark, the enumerators under mc/enum. Nothing outside the bounds "
                         "declared by `describe(tier)` (see the evidence file) is claimed.")
        checks.append({
            "property_id": pid,
            "quick_cmd": f"./check {pid} --tier quick",
            "thorough_cmd": f"./check {pid} --tier thorough",
            "evidence_file": f"/verif/evidence/{pid}.json",
            "replay_cmd_template": f"./check {pid} --replay {{path}}",
            "engine": mod.ENGINE,
            "level_claimed": {
                "category": "model_checking",
                "text": m.get("level_text", ENGINE_TEXT[mod.ENGINE]),
                "design_ref": m.get("design_ref", f"DESIGN.md section 4, {pid}"),
            },
            "level_note": m.get("level_note", "Trusted base: the reference models under mc/ref (plain Python, no ahbicht import), the "
                                "enumerators under mc/enum, CPython, lark. Nothing outside the stated bounds is claimed."),
            "technique": m.get("technique", ENGINE_TEXT[mod.ENGINE].split(";")[0]),
        })
    manifest = {
        "version": 1,
        "setup_cmd": "./check --selftest",
        "hooks": {
            "guard": "HOCHFREQUENZ_AHBICHT_VERIF",
            "enable": "none needed: no hook or instrumentation was added to /repo; every nondeterminism source is owned from outside "
                      "(custom event loop, harness evaluators injected through the library's own `inject` bindings, fresh strings "
                      "per execution for the caches). The guard name is reserved only.",
            "baseline_off_cmd": "cd /repo && /venv/bin/python -m pytest -ra -q -p no:cacheprovider --timeout=900 "
                                "--continue-on-collection-errors",
            "source_commits": [],
            "add_only": True,
        },
        "engines": [
            {"name": n, "path": {"e1-bounded-enumeration": "mc/enum + mc/ref + checks", "e2-history-bfs": "mc/histories.py",
                                 "e3-vloop-schedules": "mc/vloop.py"}[n],
             "serves_properties": sorted(ps), "kind_free_text": ENGINE_TEXT[n]} for n, ps in sorted(engines.items())
        ],
        "checks": checks,
        "notes": "All checks execute the real implementation from /repo/src (current working tree; pure Python, nothing is cached "
                 "between runs). Repairs of genuine defects are the unguarded 'fix:' commits in /repo listed as 'fixed' in "
                 "/verif/known_findings.json.",
        "not_applicable": not_applicable,
    }
    with open(os.path.join(VERIF, "MANIFEST.json"), "w", encoding="utf-8") as f:
        json.dump(manifest, f, indent=1, ensure_ascii=False)
    print(f"MANIFEST.json: {len(checks)} checks, {len(not_applicable)} not yet registered")


if __name__ == "__main__":
    main()
