"""
Enumerator of small AHB tree SHAPES (for C13-C16): all trees with at most `max_nodes` nodes where
   top level: 1-2 segment groups;  a group has 0-2 sub groups (nesting depth <= 3) and 0-2 segments;
   a segment has 0-2 data elements, each free text ('F') or value pool ('P').
Shape notation (nested tuples):   group = ('G', (subgroups...), (segments...))   segment = ('S', (elements...))   element = 'F' | 'P'
"""
import functools
import itertools


@functools.lru_cache(maxsize=None)
def _segments(n):
    """all segments with exactly n nodes (the segment itself + its elements)"""
    out = []
    k = n - 1
    if 0 <= k <= 2:
        for els in itertools.product("FP", repeat=k):
            out.append(("S", tuple(els)))
    return tuple(out)


@functools.lru_cache(maxsize=None)
def _seq(kind, n, depth, max_items):
    """all sequences (tuples) of 0..max_items items of `kind` ('G' or 'S') with exactly n nodes in total"""
    out = []
    if n == 0:
        out.append(())
    if max_items == 0 or n == 0:
        return tuple(out)
    for first in range(1, n + 1):
        heads = _groups(first, depth) if kind == "G" else _segments(first)
        if not heads:
            continue
        for rest in _seq(kind, n - first, depth, max_items - 1):
            for h in heads:
                out.append((h,) + rest)
    return tuple(out)


@functools.lru_cache(maxsize=None)
def _groups(n, depth):
    """all groups with exactly n nodes, nesting depth <= depth"""
    out = []
    if n < 1 or depth < 1:
        return ()
    rest = n - 1
    for a in range(0, rest + 1):
        subs = _seq("G", a, depth - 1, 2) if depth > 1 else (((),) if a == 0 else ())
        segs = _seq("S", rest - a, depth, 2)
        for sg in subs:
            for ss in segs:
                out.append(("G", sg, ss))
    return tuple(out)


def shapes(max_nodes, min_nodes=1):
    """all AHB shapes (tuples of 1-2 top-level groups) with min_nodes..max_nodes nodes"""
    for n in range(min_nodes, max_nodes + 1):
        for top in _seq("G", n, 3, 2):
            if len(top) >= 1:
                yield top


def count_nodes(shape):
    def g(x):
        return 1 + sum(g(y) for y in x[1]) + sum(1 + len(s[1]) for s in x[2])

    return sum(g(x) for x in shape)


def to_model(shape, label):
    """shape -> AHB model of mc.ref.validation; label(kind, index, path_id) -> dict of node attributes
    (expr / input / entries).  Node indexes follow document order."""
    counter = [0]

    def nxt():
        counter[0] += 1
        return counter[0] - 1

    def seg(s, pid, k):
        sid = f"{pid}.S{k}"
        node = {"kind": "segment", "id": sid, **label("segment", nxt(), sid), "elements": []}
        for j, e in enumerate(s[1]):
            eid = f"{sid}.D{j}"
            if e == "F":
                node["elements"].append({"kind": "free", "id": eid, **label("free", nxt(), eid)})
            else:
                node["elements"].append({"kind": "pool", "id": eid, **label("pool", nxt(), eid)})
        return node

    def grp(g, pid, k):
        gid = f"{pid}G{k}" if pid == "" else f"{pid}.G{k}"
        node = {"kind": "group", "id": gid, **label("group", nxt(), gid), "groups": [], "segments": []}
        # document order: the group, its sub groups, then its segments
        for j, sub in enumerate(g[1]):
            node["groups"].append(grp(sub, gid, j))
        for j, s in enumerate(g[2]):
            node["segments"].append(seg(s, gid, j))
        return node

    return [grp(g, "", k) for k, g in enumerate(shape)]
