"""
Enumerator of condition-expression ASTs over leaf classes {rc, hint, fc} and operators {and, or, xor, then}
(then = juxtaposition), restricted to the domain D of properties C04-C07:

    D: every juxtaposition attaches one format-constraint LEAF to a single hint leaf or to an operand that contains a
       requirement constraint.

AST:  ('rc'|'hint'|'fc', key)   ('and'|'or'|'xor'|'then', left, right)
"""
import functools
import itertools

OPS = ("and", "or", "xor", "then")
CLASSES = ("rc", "hint", "fc")
LETTER = {"and": "U", "or": "O", "xor": "X"}
PREC = {"or": 1, "xor": 2, "and": 3, "then": 4}


@functools.lru_cache(maxsize=None)
def shapes(n):
    """binary tree shapes with n leaves: None = leaf, (l, r) = inner node"""
    if n == 1:
        return (None,)
    out = []
    for k in range(1, n):
        for l in shapes(k):
            for r in shapes(n - k):
                out.append((l, r))
    return tuple(out)


def _n_inner(shape):
    return 0 if shape is None else 1 + _n_inner(shape[0]) + _n_inner(shape[1])


def _build(shape, ops, leaves):
    """ops / leaves are iterators consumed in pre-order"""
    if shape is None:
        return next(leaves)
    op = next(ops)
    l = _build(shape[0], ops, leaves)
    r = _build(shape[1], ops, leaves)
    return (op, l, r)


def is_leaf(t):
    return t[0] in CLASSES


def contains_rc(t):
    if is_leaf(t):
        return t[0] == "rc"
    return contains_rc(t[1]) or contains_rc(t[2])


def in_domain(t):
    if is_leaf(t):
        return True
    if not (in_domain(t[1]) and in_domain(t[2])):
        return False
    if t[0] == "then":
        l, r = t[1], t[2]
        lf = l[0] == "fc"
        rf = r[0] == "fc"
        if lf == rf:  # none or both are FC leaves
            return False
        other = r if lf else l
        return other[0] == "hint" or contains_rc(other)
    return True


def is_valid(t):
    """R4: structural validity"""
    if is_leaf(t):
        return True
    if not (is_valid(t[1]) and is_valid(t[2])):
        return False
    if t[0] in ("or", "xor"):
        l, r = t[1], t[2]
        if {l[0], r[0]} == {"hint", "fc"}:
            return False
        if contains_rc(l) != contains_rc(r):
            return False
    return True


def _rgs(k):
    """restricted growth strings of length k (set partitions), as tuples of block indexes"""
    if k == 0:
        yield ()
        return

    def rec(prefix, mx):
        if len(prefix) == k:
            yield tuple(prefix)
            return
        for v in range(mx + 2):
            yield from rec(prefix + [v], max(mx, v))

    yield from rec([0], 0)


def asts(n, labelling="all", pools=None, classes=CLASSES, ops=OPS, domain=True):
    """all ASTs with n leaves.  labelling: 'all' = every restricted-growth labelling per class (repeated keys included),
    'distinct' = all keys distinct.  pools: class -> list of key strings."""
    pools = pools or {"rc": ["1", "2", "3", "4", "5", "6"], "hint": ["501", "502", "503", "504", "505", "506"],
                      "fc": ["901", "902", "903", "904", "905", "906"]}
    for shape in shapes(n):
        ni = _n_inner(shape)
        for opsel in itertools.product(ops, repeat=ni):
            for cls in itertools.product(classes, repeat=n):
                # quick domain pre-check on the class skeleton
                skel = _build(shape, iter(opsel), iter([(c, "?") for c in cls]))
                if domain and not in_domain(skel):
                    continue
                idx = {c: [i for i, x in enumerate(cls) if x == c] for c in classes}
                if labelling == "distinct":
                    labs = [{c: tuple(range(len(idx[c]))) for c in classes}]
                else:
                    per = [list(_rgs(len(idx[c]))) for c in classes]
                    labs = [dict(zip(classes, combo)) for combo in itertools.product(*per)]
                for lab in labs:
                    leaves = [None] * n
                    for c in classes:
                        for pos, blk in zip(idx[c], lab[c]):
                            leaves[pos] = (c, pools[c][blk])
                    yield _build(shape, iter(opsel), iter(leaves))


def render(t, spell=None, parent=0, right=False, sp=" "):
    """minimal brackets by precedence; same-operator children on the right and nested juxtapositions are bracketed"""
    spell = spell or LETTER
    if is_leaf(t):
        return f"[{t[1]}]"
    op = t[0]
    p = PREC[op]
    l = render(t[1], spell, p, False, sp)
    r = render(t[2], spell, p, True, sp)
    s = (l + r) if op == "then" else (l + sp + spell[op] + sp + r)
    if p < parent or (p == parent and (right or op == "then")):
        s = "(" + s + ")"
    return s


def keys_of(t, cls=None):
    """distinct keys in order of first occurrence"""
    out = []

    def walk(x):
        if is_leaf(x):
            if (cls is None or x[0] == cls) and x[1] not in out:
                out.append(x[1])
        else:
            walk(x[1])
            walk(x[2])

    walk(t)
    return out


def size(t):
    return 1 if is_leaf(t) else size(t[1]) + size(t[2])


def subtrees(t, path=()):
    yield path, t
    if not is_leaf(t):
        yield from subtrees(t[1], path + (1,))
        yield from subtrees(t[2], path + (2,))


def replace_at(t, path, new):
    if not path:
        return new
    l, r = t[1], t[2]
    if path[0] == 1:
        return (t[0], replace_at(l, path[1:], new), r)
    return (t[0], l, replace_at(r, path[1:], new))
