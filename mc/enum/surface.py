"""
Enumerators of well-formed condition-expression *surface strings* (for C01, C02, C10, C18, C19).

A template is a string over   A (atom)   ( )   and the operator letters  O X U J  (J = juxtaposition).
Grammar:  E := T (op T)*     T := A | ( E )
"""
import functools
import itertools

OPS4 = ("O", "X", "U", "J")
SPELLINGS = {"O": ("O", "o", "∨"), "X": ("X", "x", "⊻"), "U": ("U", "u", "∧"), "J": ("",)}


def _compositions(n, k):
    """ordered k-tuples of positive ints summing to n"""
    if k == 1:
        yield (n,)
        return
    for first in range(1, n - k + 2):
        for rest in _compositions(n - first, k - 1):
            yield (first,) + rest


def _weak_compositions(q, k):
    """ordered k-tuples of non-negative ints summing to q"""
    if k == 1:
        yield (q,)
        return
    for first in range(0, q + 1):
        for rest in _weak_compositions(q - first, k - 1):
            yield (first,) + rest


@functools.lru_cache(maxsize=None)
def terms_exact(n, q):
    out = []
    if n == 1 and q == 0:
        out.append("A")
    if q >= 1:
        out.extend("(" + e + ")" for e in exprs_exact(n, q - 1))
    return tuple(out)


@functools.lru_cache(maxsize=None)
def exprs_exact(n, q):
    """all templates with exactly n atoms and exactly q bracket pairs"""
    out = []
    for k in range(1, n + 1):
        for comp in _compositions(n, k):
            for qs in _weak_compositions(q, k):
                pools = [terms_exact(ni, qi) for ni, qi in zip(comp, qs)]
                if any(not p for p in pools):
                    continue
                for ts in itertools.product(*pools):
                    if k == 1:
                        out.append(ts[0])
                        continue
                    for ops in itertools.product(OPS4, repeat=k - 1):
                        s = ts[0]
                        for o, t in zip(ops, ts[1:]):
                            s += o + t
                        out.append(s)
    return tuple(out)


def templates(n, max_pairs):
    for q in range(0, max_pairs + 1):
        yield from exprs_exact(n, q)


def chains(n):
    """bracket-free chains with n atoms: all 4^(n-1) operator sequences"""
    for ops in itertools.product(OPS4, repeat=n - 1):
        s = "A"
        for o in ops:
            s += o + "A"
        yield s


ATOM_KINDS = ("cond", "pkg", "pkgrep", "time")


def atom_text(i, kind, base=1):
    """text of the i-th atom (0-based) for the given kind; keys are distinct per position"""
    k = base + i
    if kind == "cond":
        return f"[{k}]"
    if kind == "pkg":
        return f"[{k}P]"
    if kind == "pkgrep":
        return f"[{k}P{min(i, k)}..{max(i, k, 1)}]"  # a <= b, b >= 1 (a > b is outside the domain)
    if kind == "time":
        return f"[UB{(i % 3) + 1}]"
    raise ValueError(kind)


def render(template, atoms=None, spell=None, gap=""):
    """template -> string.  atoms: list of atom texts (default [1],[2],...), spell: list of spellings per operator
    occurrence (default the upper case letters), gap: whitespace put between all tokens of the template"""
    out = []
    ai = 0
    oi = 0
    for c in template:
        if c == "A":
            out.append(atoms[ai] if atoms else f"[{ai + 1}]")
            ai += 1
        elif c in "()":
            out.append(c)
        else:
            if spell is not None:
                out.append(spell[oi])
            else:
                out.append("" if c == "J" else c)
            oi += 1
    return gap.join(x for x in out if x != "" or gap == "") if gap == "" else gap.join(x for x in out if x != "")


def n_atoms(template):
    return template.count("A")


def ops_of(template):
    return [c for c in template if c in "OXUJ"]


def lexical_tokens(s):
    """split a rendered expression into its lexical tokens (brackets, keys, operators); whitespace is dropped.
    '12P', 'UB1', '0..3' are single tokens."""
    toks = []
    i = 0
    while i < len(s):
        c = s[i]
        if c in " \t\n\r\f":
            i += 1
        elif c in "[]()":
            toks.append(c)
            i += 1
        elif c.isdigit():
            j = i
            while j < len(s) and (s[j].isdigit() or s[j] == "."):
                j += 1
            if j < len(s) and s[j] == "P" and "." not in s[i:j]:
                j += 1
            toks.append(s[i:j])
            i = j
        elif s.startswith("UB", i):
            toks.append(s[i:i + 3])
            i += 3
        else:
            toks.append(c)
            i += 1
    return toks
