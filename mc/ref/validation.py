"""
R7: reference semantics of the validation walk (imports nothing from ahbicht).

AHB model (plain dicts, JSON-able):
   group   {"kind": "group",   "id": str, "expr": str, "groups": [group...], "segments": [segment...]}
   segment {"kind": "segment", "id": str, "expr": str, "elements": [element...]}
   free    {"kind": "free",    "id": str, "expr": str, "input": None | str}
   pool    {"kind": "pool",    "id": str, "input": None | str, "entries": [{"q": qualifier, "expr": str}, ...]}

`own(expr, text)` is supplied by the caller: the node's OWN evaluation (expression evaluated alone) ->
   {"invalid": reason}  or  {"ind": 'MUSS'|'SOLL'|'KANN'|'X'|'O'|'U', "ful": True|False|None, "hints": ..., "fc_ful": bool, "fc_msg": ...}

Documented tables:
   indicator x outcome:  unfulfilled -> FORBIDDEN;  fulfilled: MUSS/prefix -> REQUIRED, KANN -> OPTIONAL;
                         undetermined: MUSS/prefix -> NotImplementedError (whole run), KANN -> OPTIONAL;  SOLL = MUSS/KANN by flag
   parent x child:       none/required -> child;  optional: required -> optional, else child;  below forbidden: nothing
"""


class ExpectNotImplemented(Exception):
    """a visited MUSS / prefix operator node has an undetermined outcome"""


def map_status(ind, ful, soll_is_required):
    if ind == "SOLL":
        ind = "MUSS" if soll_is_required else "KANN"
    if ful is False:
        return "IS_FORBIDDEN"
    strong = ind in ("MUSS", "X", "O", "U")
    if ful is None:
        if strong:
            raise ExpectNotImplemented()
        return "IS_OPTIONAL"
    return "IS_REQUIRED" if strong else "IS_OPTIONAL"


def combine(parent, child):
    if parent is None or parent == "IS_REQUIRED":
        return child
    if parent == "IS_OPTIONAL":
        return "IS_OPTIONAL" if child == "IS_REQUIRED" else child
    raise ValueError(parent)


def offered(pool, own):
    """qualifiers offered by a value pool, in pool order (C17)"""
    entries = pool["entries"]
    if len(entries) == 1:
        return [entries[0]["q"]]
    out = []
    for e in entries:
        o = own(e["expr"], None)
        if "notimpl" in o:
            raise ExpectNotImplemented()
        if ("invalid" in o or o["ful"] is True) and e["q"] not in out:  # a qualifier listed twice is offered once (if ANY of its lines is fulfilled)
            out.append(e["q"])
    return out


def pool_result(pool, segment_status, own):
    """(status, format_flag, offered list) for a value pool element whose segment has `segment_status`"""
    if segment_status == "IS_FORBIDDEN":
        return ("IS_FORBIDDEN", True, [])
    off = offered(pool, own)
    if not off:
        return ("IS_FORBIDDEN", True, [])
    inp = pool["input"]
    if inp in off:
        return ("*_AND_FILLED", True, off)
    if inp:
        return ("*_AND_EMPTY", False, off)
    return ("*_AND_EMPTY", True, off)


def segment_level_status(node, parent, own, soll):
    """(status, hints, invalid?)"""
    o = own(node["expr"], None)
    if "notimpl" in o:
        raise ExpectNotImplemented()  # the own evaluation of a VISITED node cannot be carried out (unknown package)
    if "invalid" in o:
        return "IS_OPTIONAL", o["invalid"], True
    return combine(parent, map_status(o["ind"], o["ful"], soll)), o["hints"], False


def walk(groups, own, soll_is_required, pending_errors=None, parent=None):
    """expected result list [(id, kind, status, details)] in document order.
    Raises ExpectNotImplemented if any VISITED node demands it (all nodes of a level are evaluated concurrently, so the
    error is expected no matter where in the visited part of the tree it sits)."""
    out = []
    errors = []

    def seg(s, parent):
        try:
            status, hints, inv = segment_level_status(s, parent, own, soll_is_required)
        except ExpectNotImplemented:
            errors.append(s["id"])
            return
        out.append((s["id"], "segment", status, {"hints": hints, "invalid": inv}))
        if status == "IS_FORBIDDEN":
            return
        for el in s["elements"]:
            if el["kind"] == "free":
                o = own(el["expr"], el["input"])
                if "notimpl" in o:
                    errors.append(el["id"])
                    continue
                suffix = "_AND_FILLED" if el["input"] else "_AND_EMPTY"
                if "invalid" in o:
                    out.append((el["id"], "free", "IS_OPTIONAL", {"hints": o["invalid"], "invalid": True, "fc_ful": True, "fc_msg": None}))
                    continue
                try:
                    st = combine(status, map_status(o["ind"], o["ful"], soll_is_required))
                except ExpectNotImplemented:
                    errors.append(el["id"])
                    continue
                out.append((el["id"], "free", st + suffix, {"hints": o["hints"], "invalid": False, "fc_ful": o["fc_ful"], "fc_msg": o["fc_msg"]}))
            else:
                st, flag, off = pool_result(el, status, own)
                out.append((el["id"], "pool", st, {"format": flag, "offered": off}))

    def grp(g, parent):
        try:
            status, hints, inv = segment_level_status(g, parent, own, soll_is_required)
        except ExpectNotImplemented:
            errors.append(g["id"])
            return
        out.append((g["id"], "group", status, {"hints": hints, "invalid": inv}))
        if status == "IS_FORBIDDEN":
            return
        for sub in g["groups"]:
            grp(sub, status)
        for s in g["segments"]:
            seg(s, status)

    for g in groups:
        # a segment may be validated as root (validate_segment_level); `parent` = status handed in by a caller of
        # validate_segment_group / validate_segment (None, IS_REQUIRED or IS_OPTIONAL)
        (seg if g["kind"] == "segment" else grp)(g, parent)
    if errors:
        raise ExpectNotImplemented(errors)
    return out


def nodes(groups):
    """all nodes in document order (ignoring pruning): (node, parent_kind)"""
    out = []

    def grp(g):
        out.append(g)
        for sub in g["groups"]:
            grp(sub)
        for s in g["segments"]:
            out.append(s)
            for el in s["elements"]:
                out.append(el)

    for g in groups:
        grp(g)
    return out
