"""
R2: hand-written character-level recogniser + precedence parser for condition expressions.  Imports nothing from
ahbicht or lark.  Transcribed from the property statements C01/C02 and the README:

  atoms      [n]   [nP]   [nPa..b]   [UB1] [UB2] [UB3]           (n, a: ASCII digits; b: no leading zero)
  brackets   ( expr )   balanced, never empty
  operators  U u ∧ (and)   X x ⊻ (xor)   O o ∨ (or), an operand on both sides; juxtaposition ("then also")
  precedence brackets > juxtaposition > and > xor > or
  whitespace space, \\t, \\n, \\r, \\f between lexical tokens (not inside 12P, UB1 or a..b)

The parser returns n-ary nodes for unbracketed runs of one operator and an opaque ('br', inner) wrapper for bracketed
sub-expressions:   ('or'|'xor'|'and'|'then', [operands...])   ('br', x)   ('cond', '12')   ('pkg', '12P', '0..1'|None)
('time', 'UB1').
"""

WS = " \t\n\r\f"
DIGITS = "0123456789"
OPS = {"U": "and", "u": "and", "∧": "and", "O": "or", "o": "or", "∨": "or", "X": "xor", "x": "xor", "⊻": "xor"}


class Reject(Exception):
    """the string is not a well-formed condition expression"""


class _P:
    def __init__(self, s: str):
        self.s = s
        self.i = 0

    def ws(self):
        while self.i < len(self.s) and self.s[self.i] in WS:
            self.i += 1

    def peek(self):
        self.ws()
        return self.s[self.i] if self.i < len(self.s) else ""

    def digits(self):
        j = self.i
        while j < len(self.s) and self.s[j] in DIGITS:
            j += 1
        if j == self.i:
            raise Reject("digits expected at %d" % self.i)
        d = self.s[self.i:j]
        self.i = j
        return d

    def atom(self):
        assert self.s[self.i] == "["
        self.i += 1
        self.ws()
        if self.s.startswith("UB", self.i):
            if self.i + 2 < len(self.s) and self.s[self.i + 2] in "123":
                node = ("time", self.s[self.i:self.i + 3])
                self.i += 3
            else:
                raise Reject("bad time condition")
        else:
            n = self.digits()
            if self.i < len(self.s) and self.s[self.i] == "P":
                self.i += 1
                self.ws()
                rep = None
                if self.i < len(self.s) and self.s[self.i] in DIGITS:
                    a = self.digits()
                    if not self.s.startswith("..", self.i):
                        raise Reject("'..' expected")
                    self.i += 2
                    if not (self.i < len(self.s) and self.s[self.i] in "123456789"):
                        raise Reject("upper repeatability bound must not start with 0")
                    b = self.digits()
                    rep = a + ".." + b
                node = ("pkg", n + "P", rep)
            else:
                node = ("cond", n)
        self.ws()
        if not (self.i < len(self.s) and self.s[self.i] == "]"):
            raise Reject("']' expected at %d" % self.i)
        self.i += 1
        return node

    def primary(self):
        c = self.peek()
        if c == "[":
            return self.atom()
        if c == "(":
            self.i += 1
            inner = self.expr()
            if self.peek() != ")":
                raise Reject("')' expected at %d" % self.i)
            self.i += 1
            return ("br", inner)
        raise Reject("operand expected at %d" % self.i)

    def then_level(self):
        items = [self.primary()]
        while self.peek() in ("[", "("):
            items.append(self.primary())
        return items[0] if len(items) == 1 else ("then", items)

    def _level(self, opname, sub):
        items = [sub()]
        while True:
            c = self.peek()
            if c and OPS.get(c) == opname:
                self.i += 1
                items.append(sub())
            else:
                break
        return items[0] if len(items) == 1 else (opname, items)

    def and_level(self):
        return self._level("and", self.then_level)

    def xor_level(self):
        return self._level("xor", self.and_level)

    def expr(self):
        return self._level("or", self.xor_level)


def parse(s: str):
    """reference parse; raises Reject"""
    if not isinstance(s, str):
        raise Reject("not a string")
    p = _P(s)
    t = p.expr()
    if p.peek() != "":
        raise Reject("trailing input at %d" % p.i)
    return t


def accepts(s: str) -> bool:
    try:
        parse(s)
        return True
    except Reject:
        return False
    except RecursionError:
        return False


# ---------------------------------------------------------------------------------------------------------------------
# matcher: does a binary implementation tree (nested tuples as produced by mc.impl.tree_to_tuple) conform to the n-ary
# reference tree?  It conforms iff it is some binarisation of the reference tree that never regroups across a bracket.
# ---------------------------------------------------------------------------------------------------------------------
IMPL_OP = {"or": "or_composition", "xor": "xor_composition", "and": "and_composition", "then": "then_also_composition"}


def atom_tuple(ref):
    if ref[0] == "cond":
        return ("condition", ("%CONDITION_KEY", ref[1]))
    if ref[0] == "time":
        return ("time_condition", ("%TIME_CONDITION_KEY", ref[1]))
    if ref[0] == "pkg":
        if ref[2] is None:
            return ("package", ("%PACKAGE_KEY", ref[1]))
        return ("package", ("%PACKAGE_KEY", ref[1]), ("%REPEATABILITY", ref[2]))
    raise ValueError(ref)


def matches(impl, ref) -> bool:
    k = ref[0]
    if k == "br":
        return matches(impl, ref[1])
    if k in ("cond", "time", "pkg"):
        return impl == atom_tuple(ref)
    return _match_run(impl, k, ref[1])


def _match_run(impl, op, operands) -> bool:
    if len(operands) == 1:
        return matches(impl, operands[0])
    if not (isinstance(impl, tuple) and len(impl) == 3 and impl[0] == IMPL_OP[op]):
        return False
    for i in range(1, len(operands)):
        if _match_run(impl[1], op, operands[:i]) and _match_run(impl[2], op, operands[i:]):
            return True
    return False


def strip_brackets(ref):
    """reference tree without ('br', x) wrappers where they are redundant w.r.t. the n-ary structure is NOT computed
    here; this only removes all wrappers (used to compare token order)"""
    if ref[0] == "br":
        return strip_brackets(ref[1])
    if ref[0] in ("cond", "time", "pkg"):
        return ref
    return (ref[0], [strip_brackets(x) for x in ref[1]])


def leaves(ref):
    if ref[0] == "br":
        return leaves(ref[1])
    if ref[0] in ("cond", "time", "pkg"):
        return [ref]
    out = []
    for x in ref[1]:
        out.extend(leaves(x))
    return out


def impl_leaves(impl):
    if impl[0] in ("condition", "package", "time_condition"):
        return [impl]
    out = []
    for c in impl[1:]:
        if isinstance(c, tuple) and c and not str(c[0]).startswith("%"):
            out.extend(impl_leaves(c))
    return out


def flatten(impl, ops=("or_composition", "xor_composition", "and_composition", "then_also_composition")):
    """implementation tree with runs of one and the same operator flattened (I3: same-operator regrouping is
    unspecified).  Bracket information is not in the implementation tree, so this is coarser than `matches`."""
    if not isinstance(impl, tuple) or not impl:
        return impl
    h = impl[0]
    if h in ops:
        items = []
        for c in impl[1:]:
            fc = flatten(c, ops)
            if isinstance(fc, tuple) and fc and fc[0] == h:
                items.extend(fc[1:])
            else:
                items.append(fc)
        return (h,) + tuple(items)
    return (h,) + tuple(flatten(c, ops) if isinstance(c, tuple) else c for c in impl[1:])


def to_bool(ref, val):
    """Boolean value of a reference tree over atoms, val: key -> bool (used for FC expressions)"""
    k = ref[0]
    if k == "br":
        return to_bool(ref[1], val)
    if k == "cond":
        return val[ref[1]]
    if k in ("time", "pkg"):
        raise ValueError("not a plain key")
    vs = [to_bool(x, val) for x in ref[1]]
    if k == "and":
        return all(vs)
    if k == "or":
        return any(vs)
    if k == "xor":
        r = vs[0]
        for v in vs[1:]:
            r = r != v
        return r
    raise ValueError("juxtaposition has no Boolean value")
