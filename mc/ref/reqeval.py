"""
R3 + R4: compositional reference evaluator for requirement constraints (imports nothing from ahbicht).

Works on Lark-shaped trees given as nested tuples (mc.impl.tree_to_tuple):
   ('and_composition'|'or_composition'|'xor_composition'|'then_also_composition', left, right)
   ('condition', ('%CONDITION_KEY', key))
Keys are classified by R8 (mc.ref.keys).

state(t, rc)            four-valued state by R1; hints/format constraints NEUTRAL; then_also copies the partner's state
outcome(state)          F -> (True, True)   N -> (True, False)   U -> (False, True)   ? -> (None, None)
valid(t)                R4 (structural)
in_domain(t)            domain predicate D
fc_function(t, rc)      (strict, lenient): each None (absent) or a Boolean expression tree over FC keys
                        ('var', k) ('and'|'or'|'xor', a, b)
"""
import itertools

from mc.ref import keys as R8
from mc.ref import logic4 as R1

OPN = {"and_composition": "and", "or_composition": "or", "xor_composition": "xor"}


class OutOfDomain(Exception):
    pass


def leaf_key(t):
    if t[0] == "condition":
        return t[1][1]
    return None


def leaf_class(t):
    k = leaf_key(t)
    if k is None:
        return None
    return R8.category(k)


def contains_rc(t):
    c = leaf_class(t)
    if c is not None:
        return c == "rc"
    if t[0] in ("package", "time_condition"):
        raise OutOfDomain("unresolved package / time condition")
    return contains_rc(t[1]) or contains_rc(t[2])


def in_domain(t):
    c = leaf_class(t)
    if c is not None:
        return True
    if t[0] in ("package", "time_condition"):
        return False
    if not (in_domain(t[1]) and in_domain(t[2])):
        return False
    if t[0] == "then_also_composition":
        lf = leaf_class(t[1]) == "fc"
        rf = leaf_class(t[2]) == "fc"
        if lf == rf:
            return False
        other = t[2] if lf else t[1]
        return leaf_class(other) == "hint" or contains_rc(other)
    return True


def valid(t):
    c = leaf_class(t)
    if c is not None:
        return True
    if not (valid(t[1]) and valid(t[2])):
        return False
    if t[0] in ("or_composition", "xor_composition"):
        lc, rc_ = leaf_class(t[1]), leaf_class(t[2])
        if {lc, rc_} == {"hint", "fc"}:
            return False
        if contains_rc(t[1]) != contains_rc(t[2]):
            return False
    return True


def state(t, rc):
    c = leaf_class(t)
    if c is not None:
        return rc[leaf_key(t)] if c == "rc" else "N"
    if t[0] == "then_also_composition":
        other = t[2] if leaf_class(t[1]) == "fc" else t[1]
        return state(other, rc)
    return R1.op(OPN[t[0]], state(t[1], rc), state(t[2], rc))


def outcome(st):
    return {"F": (True, True), "N": (True, False), "U": (False, True), "?": (None, None)}[st]


def _join(op, a, b):
    if a is None:
        return b
    if b is None:
        return a
    return (op, a, b)


def fc_function(t, rc, lenient):
    """Boolean expression over FC keys collected from t (None = absent)"""
    c = leaf_class(t)
    if c is not None:
        return ("var", leaf_key(t)) if c == "fc" else None
    if t[0] == "then_also_composition":
        if leaf_class(t[1]) == "fc":
            fc, other = t[1], t[2]
        else:
            fc, other = t[2], t[1]
        if leaf_class(other) == "hint" or state(other, rc) == "F":
            return _join("and", ("var", leaf_key(fc)), fc_function(other, rc, lenient))
        # the operand the FC is attached to is not FULFILLED: the attached FC does not take part.
        # I1: what happens to FCs nested inside the operand is not specified -> strict keeps them, lenient drops them
        return None if lenient else fc_function(other, rc, lenient)
    return _join(OPN[t[0]], fc_function(t[1], rc, lenient), fc_function(t[2], rc, lenient))


def eval_bool(e, val):
    if e[0] == "var":
        return val[e[1]]
    a, b = eval_bool(e[1], val), eval_bool(e[2], val)
    if e[0] == "and":
        return a and b
    if e[0] == "or":
        return a or b
    return a != b


def truth_table(e, keys):
    """tuple of bools over all assignments of `keys` (lexicographic, False first); None stays None"""
    if e is None:
        return None
    return tuple(eval_bool(e, dict(zip(keys, vals))) for vals in itertools.product((False, True), repeat=len(keys)))


def keys_of(t, cls=None):
    out = []

    def walk(x):
        k = leaf_key(x)
        if k is not None:
            if (cls is None or R8.category(k) == cls) and k not in out:
                out.append(k)
            return
        for c in x[1:]:
            if isinstance(c, tuple) and c and not str(c[0]).startswith("%"):
                walk(c)

    walk(t)
    return out


def from_ast(a):
    """mc.enum.asts AST -> Lark-shaped tuple tree"""
    if a[0] in ("rc", "hint", "fc"):
        return ("condition", ("%CONDITION_KEY", a[1]))
    name = {"and": "and_composition", "or": "or_composition", "xor": "xor_composition", "then": "then_also_composition"}[a[0]]
    return (name, from_ast(a[1]), from_ast(a[2]))


def keys_of_bool(e):
    if e is None:
        return []
    if e[0] == "var":
        return [e[1]]
    out = []
    for x in (e[1], e[2]):
        for k in keys_of_bool(x):
            if k not in out:
                out.append(k)
    return out
