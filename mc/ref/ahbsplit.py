"""
R5: regex-free splitter / recogniser for AHB expressions (imports nothing from ahbicht).

Documented forms (property C09):
   (modal_mark  condition_expression)+  [modal_mark]      modal marks M/Muss, S/Soll, K/Kann in any letter case
   prefix_operator condition_expression                    X / O / U in any letter case
   bare indicator (modal mark or prefix operator)

strict   = exactly these forms, no whitespace before the first indicator or after a bare final modal mark; the condition
           expressions (with any surrounding whitespace) are well-formed by R2.           -> MUST be accepted
lenient  = any sequence of parts  indicator [condition_expression]  where every indicator (modal mark or prefix
           operator) may start a part or end the string and whitespace may surround anything.  Everything outside
           L_cond and outside `lenient` MUST be rejected; between strict and lenient either outcome is tolerated (I2).
"""
from mc.ref import condparse as R2

MODAL = {"MUSS": "MUSS", "M": "MUSS", "SOLL": "SOLL", "S": "SOLL", "KANN": "KANN", "K": "KANN"}
PREFIX = {"X": "X", "O": "O", "U": "U"}
WS = R2.WS


def _indicators_at(s, i):
    """all (text, normalised, is_modal) indicator spellings starting at position i"""
    out = []
    for L in (4, 1):
        w = s[i:i + L]
        if len(w) == L:
            up = w.upper()
            if up in MODAL and (L == 4 or True):
                out.append((w, MODAL[up], True))
            if L == 1 and up in PREFIX:
                out.append((w, PREFIX[up], False))
    return out


def strict_split(s):
    """the strict segmentation [(indicator_text, normalised, is_modal, cond_text|None), ...] or None"""
    res = _strict(s, 0, first=True)
    return res


def _strict(s, i, first):
    if i >= len(s):
        return None
    for text, norm, is_modal in _indicators_at(s, i):
        j = i + len(text)
        if j == len(s):
            # bare indicator: alone, or a modal mark ending a sequence of modal mark parts
            if first or is_modal:
                return [(text, norm, is_modal, None)]
            continue
        if not is_modal:
            if first and R2.accepts(s[j:]):
                return [(text, norm, False, s[j:])]
            continue
        # modal mark followed by a condition expression, then optionally more modal mark parts
        for k in range(len(s), j, -1):
            cond = s[j:k]
            if not R2.accepts(cond):
                continue
            if k == len(s):
                return [(text, norm, True, cond)]
            rest = _strict(s, k, first=False)
            if rest is not None and all(p[2] for p in rest):
                return [(text, norm, True, cond)] + rest
    return None


def strict_accepts(s):
    return strict_split(s) is not None


def lenient_accepts(s):
    memo = {}

    def go(i):
        # skip whitespace
        while i < len(s) and s[i] in WS:
            i += 1
        if i in memo:
            return memo[i]
        ok = False
        if i < len(s):
            for text, _n, _m in _indicators_at(s, i):
                j = i + len(text)
                if s[j:].strip(WS) == "":
                    ok = True
                    break
                # indicator directly followed by another part
                if go(j):
                    ok = True
                    break
                for k in range(j + 1, len(s) + 1):
                    if R2.accepts(s[j:k]) and (k == len(s) or go(k)):
                        ok = True
                        break
                if ok:
                    break
        memo[i] = ok
        return ok

    return go(0)


def select(parts_results):
    """R5 selection: index of the first part whose requirement constraints are fulfilled (True), else the last"""
    for i, fulfilled in enumerate(parts_results):
        if fulfilled:
            return i
    return len(parts_results) - 1
