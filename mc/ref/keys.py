"""R8: key ranges, literally from the statement of C18 (imports nothing from ahbicht)."""


class OutOfRange(Exception):
    pass


def category(key: str) -> str:
    """'rc' (1-499, 2000-2499), 'hint' (500-900), 'fc' (901-999), 'pkg' (nP); anything else is rejected"""
    if key.endswith("P"):
        return "pkg"
    if key.startswith("UB"):
        return "time"
    n = int(key)
    if 1 <= n <= 499 or 2000 <= n <= 2499:
        return "rc"
    if 500 <= n <= 900:
        return "hint"
    if 901 <= n <= 999:
        return "fc"
    raise OutOfRange(key)
