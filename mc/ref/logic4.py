"""R1: the four-valued tables, typed in literally (README truth tables + Boolean logic + NEUTRAL is the identity).
States: 'F' FULFILLED, 'U' UNFULFILLED, '?' UNKNOWN, 'N' NEUTRAL.   Imports nothing from ahbicht."""

STATES = ("F", "U", "?", "N")

AND = {
    ("F", "F"): "F", ("F", "U"): "U", ("F", "?"): "?", ("F", "N"): "F",
    ("U", "F"): "U", ("U", "U"): "U", ("U", "?"): "U", ("U", "N"): "U",
    ("?", "F"): "?", ("?", "U"): "U", ("?", "?"): "?", ("?", "N"): "?",
    ("N", "F"): "F", ("N", "U"): "U", ("N", "?"): "?", ("N", "N"): "N",
}
OR = {
    ("F", "F"): "F", ("F", "U"): "F", ("F", "?"): "F", ("F", "N"): "F",
    ("U", "F"): "F", ("U", "U"): "U", ("U", "?"): "?", ("U", "N"): "U",
    ("?", "F"): "F", ("?", "U"): "?", ("?", "?"): "?", ("?", "N"): "?",
    ("N", "F"): "F", ("N", "U"): "U", ("N", "?"): "?", ("N", "N"): "N",
}
XOR = {
    ("F", "F"): "U", ("F", "U"): "F", ("F", "?"): "?", ("F", "N"): "F",
    ("U", "F"): "F", ("U", "U"): "U", ("U", "?"): "?", ("U", "N"): "U",
    ("?", "F"): "?", ("?", "U"): "?", ("?", "?"): "?", ("?", "N"): "?",
    ("N", "F"): "F", ("N", "U"): "U", ("N", "?"): "?", ("N", "N"): "N",
}
TABLE = {"and": AND, "or": OR, "xor": XOR}

# The README rows, verbatim (A, B, result); rows marked "does not make sense" are not listed there with a value.
README_ROWS = {
    "and": [("N", "F", "F"), ("N", "U", "U"), ("N", "N", "N"), ("?", "F", "?"), ("?", "U", "U"), ("?", "?", "?"),
            ("?", "N", "?")],
    "or": [("N", "N", "N"), ("?", "F", "F"), ("?", "U", "?"), ("?", "?", "?")],
    "xor": [("N", "N", "N"), ("?", "F", "?"), ("?", "U", "?"), ("?", "?", "?")],
}

BOOL = {
    "and": lambda a, b: a and b,
    "or": lambda a, b: a or b,
    "xor": lambda a, b: a != b,
}


def op(name, a, b):
    return TABLE[name][(a, b)]


def refinements(states):
    """all replacements of every '?' by 'F'/'U'"""
    out = [()]
    for s in states:
        out = [o + (r,) for o in out for r in (("F", "U") if s == "?" else (s,))]
    return out
