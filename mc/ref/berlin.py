"""R9: German local time by the EU rule, in integer arithmetic (no pytz, no zoneinfo, no datetime; imports nothing).
CEST from 01:00 UTC on the last Sunday of March to 01:00 UTC on the last Sunday of October (valid since 1996)."""


def days_from_civil(y, m, d):
    """days since 1970-01-01 (proleptic Gregorian)"""
    y -= m <= 2
    era = (y if y >= 0 else y - 399) // 400
    yoe = y - era * 400
    doy = (153 * (m + (-3 if m > 2 else 9)) + 2) // 5 + d - 1
    doe = yoe * 365 + yoe // 4 - yoe // 100 + doy
    return era * 146097 + doe - 719468


def civil_from_days(z):
    z += 719468
    era = (z if z >= 0 else z - 146096) // 146097
    doe = z - era * 146097
    yoe = (doe - doe // 1460 + doe // 36524 - doe // 146096) // 365
    y = yoe + era * 400
    doy = doe - (365 * yoe + yoe // 4 - yoe // 100)
    mp = (5 * doy + 2) // 153
    d = doy - (153 * mp + 2) // 5 + 1
    m = mp + (3 if mp < 10 else -9)
    return (y + (m <= 2), m, d)


def weekday(days):
    """0 = Sunday ... 6 = Saturday (1970-01-01 was a Thursday)"""
    return (days + 4) % 7


def last_sunday(y, m):
    """day of month of the last Sunday of March / October (both have 31 days)"""
    return 31 - weekday(days_from_civil(y, m, 31))


def cest_bounds(y):
    """(start, end) of summer time in year y as epoch seconds (UTC)"""
    return (days_from_civil(y, 3, last_sunday(y, 3)) * 86400 + 3600, days_from_civil(y, 10, last_sunday(y, 10)) * 86400 + 3600)


def german_offset(t):
    """UTC offset in seconds of German local time at epoch second t (1996..2037)"""
    y = civil_from_days(t // 86400)[0]
    a, b = cest_bounds(y)
    return 7200 if a <= t < b else 3600


def german_second_of_day(t):
    return (t + german_offset(t)) % 86400


def fmt(t, offset, style=0):
    """the instant t (epoch seconds) written with UTC offset `offset` (seconds) in one of several ISO-8601 spellings"""
    loc = t + offset
    y, m, d = civil_from_days(loc // 86400)
    sod = loc % 86400
    hh, mm, ss = sod // 3600, sod // 60 % 60, sod % 60
    sign = "-" if offset < 0 else "+"
    ao = abs(offset)
    oh, om, os_ = ao // 3600, ao // 60 % 60, ao % 60
    sep = " " if style in (4, 9) else "T"
    head = f"{y:04d}-{m:02d}-{d:02d}{sep}{hh:02d}:{mm:02d}:{ss:02d}"
    if style == 5:
        head += ".000000"
    if style == 8:
        head = f"{y:04d}{m:02d}{d:02d}T{hh:02d}{mm:02d}{ss:02d}"  # basic format
    if style in (0, 4, 5, 8):
        tail = f"{sign}{oh:02d}:{om:02d}" + (f":{os_:02d}" if os_ else "")
    elif style in (1, 9):
        tail = f"{sign}{oh:02d}{om:02d}" + (f"{os_:02d}" if os_ else "")
    elif style == 2:
        tail = f"{sign}{oh:02d}" if (om == 0 and os_ == 0) else f"{sign}{oh:02d}:{om:02d}" + (f":{os_:02d}" if os_ else "")
    elif style == 3:
        tail = f"{sign}{oh:02d}:{om:02d}:{os_:02d}"
    elif style in (6, 7):
        tail = ("Z" if style == 6 else "+00:00") if offset == 0 else f"{sign}{oh:02d}:{om:02d}" + (f":{os_:02d}" if os_ else "")
    else:
        raise ValueError(style)
    return head + tail


N_STYLES = 10
