"""R6: textual substitution of abbreviations (imports nothing from ahbicht).
   [nP] / [nPa..b] -> (package expression)     [UB1] -> [932]     [UB2] -> [934]     [UB3] -> ([932][492]X[934][493])
One pass each: packages first (exactly one level), then time conditions (also those that came in with a package)."""
import re

_PKG = re.compile(r"\[[ \t\n\r\f]*(\d+P)[ \t\n\r\f]*(?:\d+\.\.[1-9]\d*)?[ \t\n\r\f]*\]")
_UB = re.compile(r"\[[ \t\n\r\f]*(UB[123])[ \t\n\r\f]*\]")
TIME = {"UB1": "[932]", "UB2": "[934]", "UB3": "([932][492]X[934][493])"}


class MissingPackage(Exception):
    pass


def substitute(expr, packages, resolve_packages, replace_time_conditions):
    s = expr
    if resolve_packages:
        def rep(m):
            key = m.group(1)
            if packages.get(key) is None:
                raise MissingPackage(key)
            return "(" + packages[key] + ")"

        s = _PKG.sub(rep, s)
    if replace_time_conditions:
        s = _UB.sub(lambda m: TIME[m.group(1)], s)
    return s


def package_keys(expr):
    return [m.group(1) for m in _PKG.finditer(expr)]
