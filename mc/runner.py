"""
Shared runner for all checks: tiers, VERIF_SEED, worker pool, evidence writer,
VIOLATION / KNOWN-FINDING protocol, replay files.

A check module (checks/cNN.py) provides

    ID            "C07"
    TITLE         short text
    ENGINE        "e1-bounded-enumeration" | "e2-history-bfs" | "e3-vloop-schedules"
    def plan(tier, seed) -> list[item]           JSON-able, pairwise disjoint partitions of the explored space
    def run_item(item) -> mc.runner.Result       executed in a worker process
    def replay(case) -> list[violation dict]     re-executes ONE recorded case (same oracle)
    def describe(tier) -> dict(rule=..., bounds=..., assumptions=[...], exhaustive=bool)

All counts in the evidence are summed from what the workers really executed.
"""
from __future__ import annotations

import hashlib
import json
import multiprocessing as mp
import os
import subprocess
import sys
import time
import traceback
from typing import Any, Dict, List, Optional

VERIF = os.path.dirname(os.path.dirname(os.path.abspath(__file__)))
# VERIF_EVIDENCE_DIR: keep the evidence of a thorough run next to (not instead of) the registered evidence file
EVIDENCE_DIR = os.environ.get("VERIF_EVIDENCE_DIR") or os.path.join(VERIF, "evidence")
REPLAY_DIR = os.path.join(VERIF, "replays")
KNOWN_FINDINGS = os.path.join(VERIF, "known_findings.json")

MAX_REPORTED = 5  # violations written out per run: the first one of each distinct kind (all are counted)


class Result:
    """What one work item (partition) covered. Everything is additive over partitions."""

    __slots__ = ("evaluations", "nontrivial", "states", "transitions", "traces", "violations", "samples", "stats",
                 "outcomes", "capped")

    def __init__(self):
        self.evaluations = 0  # executions of the implementation under an oracle
        self.nontrivial = 0  # distinct non-trivial cases (partitions are disjoint => additive)
        self.states = 0  # distinct configurations / states visited
        self.transitions = 0  # calls into the implementation (steps)
        self.traces = 0  # traces (cases) replayed against the implementation
        self.violations: List[dict] = []
        self.samples: List[Any] = []
        self.stats: Dict[str, int] = {}
        self.outcomes: set = set()  # distinct observed outcomes (hashable, small)
        self.capped = False

    def stat(self, key: str, n: int = 1):
        self.stats[key] = self.stats.get(key, 0) + n

    def sample(self, case: Any, limit: int = 3):
        if len(self.samples) < limit:
            self.samples.append(case)

    def violation(self, kind: str, case: dict, expected: Any = None, observed: Any = None, msg: str = ""):
        if len(self.violations) < 200:
            self.violations.append(
                {"kind": kind, "case": case, "expected": _j(expected), "observed": _j(observed), "msg": msg}
            )
        self.stat("violations_total")
        self.stat("viol/" + kind)

    def to_wire(self):
        return {
            "evaluations": self.evaluations, "nontrivial": self.nontrivial, "states": self.states,
            "transitions": self.transitions, "traces": self.traces, "violations": self.violations,
            "samples": self.samples, "stats": self.stats, "outcomes": sorted(self.outcomes, key=repr)[:64],
            "capped": self.capped,
        }


def _j(x):
    try:
        json.dumps(x)
        return x
    except TypeError:
        return repr(x)


# ---------------------------------------------------------------------------------------------------------------------
# worker side
# ---------------------------------------------------------------------------------------------------------------------
_MOD = None


def _worker_init(modname: str):
    global _MOD
    import importlib

    _MOD = importlib.import_module(modname)
    if hasattr(_MOD, "worker_init"):
        _MOD.worker_init()


def _worker_run(arg):
    idx, item = arg
    t0 = time.time()
    try:
        res = _MOD.run_item(item)
        wire = res.to_wire()
        wire["error"] = None
    except BaseException:  # harness error: never turn it into silence
        wire = Result().to_wire()
        wire["error"] = traceback.format_exc()
    wire["idx"] = idx
    wire["wall"] = time.time() - t0
    return wire


# ---------------------------------------------------------------------------------------------------------------------
# known findings
# ---------------------------------------------------------------------------------------------------------------------
def load_known_findings() -> List[dict]:
    if not os.path.exists(KNOWN_FINDINGS):
        return []
    with open(KNOWN_FINDINGS, encoding="utf-8") as f:
        data = json.load(f)
    return data.get("findings", [])


def signature(prop: str, violation: dict) -> str:
    return f"{prop}/{violation['kind']}"


def _match_known(prop: str, violation: dict, findings: List[dict]) -> Optional[dict]:
    sig = signature(prop, violation)
    for f in findings:
        if f.get("status") != "known" or f.get("property") != prop:
            continue
        if f.get("signature") != sig:
            continue
        # a known finding is identified by the specific failing input class; "match" may narrow it further
        m = f.get("match")
        if m and not all(violation["case"].get(k) == v for k, v in m.items()):
            continue
        return f
    return None


# ---------------------------------------------------------------------------------------------------------------------
# main entry
# ---------------------------------------------------------------------------------------------------------------------
def write_replay(prop: str, violation: dict, tier: str, seed: int) -> str:
    os.makedirs(REPLAY_DIR, exist_ok=True)
    body = {
        "property_id": prop, "signature": signature(prop, violation), "kind": violation["kind"],
        "case": violation["case"], "expected": violation.get("expected"), "observed": violation.get("observed"),
        "msg": violation.get("msg", ""), "tier": tier, "seed": seed,
        "replay_cmd": None,
    }
    h = hashlib.sha1(json.dumps([body["kind"], body["case"]], sort_keys=True, default=repr).encode()).hexdigest()[:12]
    path = os.path.join(REPLAY_DIR, f"{prop}-{h}.json")
    body["replay_cmd"] = f"./check {prop} --replay {path}"
    with open(path, "w", encoding="utf-8") as f:
        json.dump(body, f, indent=1, ensure_ascii=False, default=repr)
    return path


def run_check(mod, tier: str, seed: int, jobs: int, cap_s: Optional[float] = None) -> int:
    prop = mod.ID
    t0 = time.time()
    desc = mod.describe(tier)
    items = mod.plan(tier, seed)
    # VERIF_SEED only permutes the order in which partitions are handed out (and what describe()/plan() derive from
    # it); every seed explores the complete planned space.
    order = list(range(len(items)))
    import random

    random.Random(seed).shuffle(order)
    work = [(i, items[i]) for i in order]
    results: Dict[int, dict] = {}
    capped = False
    if cap_s is None:
        cap_s = float(os.environ.get("VERIF_CAP_S", "0") or 0) or (desc.get("cap_s") or (600 if tier == "quick" else 7200))
    if jobs <= 1 or len(items) <= 1:
        _worker_init(mod.__name__)
        for w in work:
            results[w[0]] = _worker_run(w)
            if time.time() - t0 > cap_s:
                capped = len(results) < len(work)
                break
    else:
        ctx = mp.get_context("fork")
        # ISOLATE_PARTITIONS: every partition runs in a freshly forked worker (cold library state: caches, module-level
        # objects), so that a failure found in a partition is reproducible from that partition alone
        isolate = 1 if getattr(mod, "ISOLATE_PARTITIONS", False) else None
        with ctx.Pool(min(jobs, len(items)), initializer=_worker_init, initargs=(mod.__name__,),
                      maxtasksperchild=isolate) as pool:
            it = pool.imap_unordered(_worker_run, work, chunksize=1)
            while True:
                try:
                    wire = it.next(timeout=max(1.0, cap_s - (time.time() - t0)))
                except StopIteration:
                    break
                except mp.TimeoutError:
                    capped = True
                    pool.terminate()
                    break
                results[wire["idx"]] = wire
    # merge deterministically (by partition index)
    total = Result()
    errors = []
    outcomes = set()
    per_item_wall = []
    for idx in sorted(results):
        w = results[idx]
        if w["error"]:
            errors.append((idx, w["error"]))
            continue
        total.evaluations += w["evaluations"]
        total.nontrivial += w["nontrivial"]
        total.states += w["states"]
        total.transitions += w["transitions"]
        total.traces += w["traces"]
        for vv in w["violations"]:
            vv["item"] = items[idx]
        total.violations.extend(w["violations"])
        for k, v in w["stats"].items():
            total.stats[k] = total.stats.get(k, 0) + v
        for o in w["outcomes"]:
            outcomes.add(json.dumps(o, sort_keys=True, default=repr))
        capped = capped or w["capped"]
        per_item_wall.append(w["wall"])
    # samples: first, middle, last partition's first sample
    idxs = sorted(i for i in results if not results[i]["error"] and results[i]["samples"])
    samples = []
    if idxs:
        for i in sorted({idxs[0], idxs[len(idxs) // 2], idxs[-1]}):
            samples.extend(results[i]["samples"][:2])
    if errors:
        for idx, err in errors[:3]:
            sys.stderr.write(f"HARNESS ERROR in partition {idx} of {prop}:\n{err}\n")
        if not total.violations:
            print(f"HARNESS-ERROR property={prop} partitions_failed={len(errors)}")
            _write_evidence(mod, tier, seed, desc, total, samples, outcomes, capped, len(items), len(results), t0,
                            violations=0, note="harness error")
            return 2
        # other partitions DID observe violations: those are confirmed and reported below (a confirmed violation stands on its
        # own); the run is never reported as clean - if nothing can be confirmed it ends as a harness error
        sys.stderr.write(f"  note: {len(errors)} partitions ended with a harness error; the violations observed by the other partitions follow\n")

    # --- violations -------------------------------------------------------------------------------------------------
    findings = load_known_findings()
    seen_known = {}
    cands: Dict[str, List[dict]] = {}
    n_new = 0
    for v in total.violations:
        k = _match_known(prop, v, findings)
        if k is not None:
            seen_known.setdefault(k["signature"] + json.dumps(k.get("match", {}), sort_keys=True), (k, v))
            continue
        n_new += 1
        if len(cands.setdefault(v["kind"], [])) < 50:
            cands[v["kind"]].append(v)
    for k, v in seen_known.values():
        print(f"KNOWN-FINDING: property={prop} {k.get('what', k['signature'])}")
    rc = 0
    reported = 0
    unconfirmed = []
    def _has_history(lst_):
        return any(isinstance(x["case"], dict) and x["case"].get("history") for x in lst_)

    # kinds whose cases carry their own operation history are confirmed first (they replay from a fresh process by construction);
    # at most MAX_REPORTED kinds are reported, at most 2 * MAX_REPORTED are tried
    ordered = sorted(cands.items(), key=lambda kv: 0 if _has_history(kv[1]) else 1)
    for kind, lst in ordered[:2 * MAX_REPORTED]:
        if reported >= MAX_REPORTED:
            break
        # a failing case is re-executed in this process and in a fresh process before it is reported.  Cases that carry
        # their own operation history are tried first; a case that only fails because of what the worker executed before it
        # (hidden state) is replaced by another case of the same kind or, failing that, by its whole partition.
        lst = sorted(lst, key=lambda x: 0 if (isinstance(x["case"], dict) and x["case"].get("history")) else 1)
        v = lst[0]
        ok_here = ok_fresh = False
        path = None
        for cand in lst[:6]:
            ok_here = _confirm_inprocess(mod, cand)
            path = write_replay(prop, cand, tier, seed)
            ok_fresh = _confirm_fresh(prop, path)
            v = cand
            if ok_here and ok_fresh:
                break
        if not ok_fresh and v.get("item") is not None:
            # the single case does not fail from a fresh process: the failure may depend on what the same partition executed
            # before it (hidden state).  The replayable artefact then is the partition = the whole operation sequence.
            pv = dict(v)
            pv["case"] = {"partition": v["item"], "kind": v["kind"], "failing_case": v["case"]}
            ppath = write_replay(prop, pv, tier, seed)
            if _confirm_fresh(prop, ppath) and _confirm_fresh(prop, ppath):
                path, ok_here, ok_fresh = ppath, True, True
                v = pv
        if not (ok_here and ok_fresh):
            unconfirmed.append((kind, path, ok_here, ok_fresh))
            continue
        print(f"VIOLATION property={prop} replay={path}")
        sys.stderr.write(f"  {v['kind']}: {v.get('msg', '')}\n    case={json.dumps(v['case'], ensure_ascii=False, default=repr)[:600]}\n"
                         f"    expected={json.dumps(v.get('expected'), ensure_ascii=False, default=repr)[:300]}\n"
                         f"    observed={json.dumps(v.get('observed'), ensure_ascii=False, default=repr)[:300]}\n")
        reported += 1
        rc = max(rc, 1)
    # violation kinds whose recorded cases did not fail again from a fresh process (they depend on what the worker had executed
    # before): if another kind WAS confirmed the run is a violation run and these are only noted; if nothing could be confirmed the
    # machinery cannot stand behind the observation and says so (exit 2)
    for kind, path, ok_here, ok_fresh in unconfirmed:
        if reported:
            sys.stderr.write(f"  note: a case of kind {kind} was observed but did not reproduce from a fresh process ({path})\n")
        else:
            print(f"HARNESS-ERROR property={prop} non-reproducible violation replay={path} "
                  f"(same-process={ok_here}, fresh-process={ok_fresh})")
            rc = max(rc, 2)
    if errors and rc == 0:
        print(f"HARNESS-ERROR property={prop} partitions_failed={len(errors)}")
        rc = 2
    _write_evidence(mod, tier, seed, desc, total, samples, outcomes, capped, len(items), len(results), t0,
                    violations=n_new, known=len(seen_known))
    wall = time.time() - t0
    kinds = {k[5:]: n for k, n in total.stats.items() if k.startswith("viol/")}
    if kinds:
        sys.stderr.write(f"  violation kinds: {kinds}\n")
    print(f"{prop} tier={tier} seed={seed} partitions={len(results)}/{len(items)} evaluations={total.evaluations} "
          f"states={total.states} transitions={total.transitions} nontrivial={total.nontrivial} "
          f"outcomes={len(outcomes)} violations={n_new} known={len(seen_known)} capped={capped} wall={wall:.1f}s")
    return rc


def _confirm_inprocess(mod, v) -> bool:
    try:
        if hasattr(mod, "worker_init"):
            mod.worker_init()
        again = mod.replay(v["case"])
    except BaseException:
        sys.stderr.write(traceback.format_exc())
        return False
    return any(a["kind"] == v["kind"] for a in again)


def _confirm_fresh(prop: str, path: str) -> bool:
    env = dict(os.environ)
    env["VERIF_NO_CONFIRM"] = "1"
    p = subprocess.run([sys.executable, "-m", "mc.main", prop, "--replay", path], cwd=VERIF, env=env,
                       capture_output=True, text=True, timeout=600)
    return p.returncode == 1 and "VIOLATION" in p.stdout


def run_replay(mod, path: str) -> int:
    with open(path, encoding="utf-8") as f:
        body = json.load(f)
    if hasattr(mod, "worker_init"):
        mod.worker_init()
    if isinstance(body["case"], dict) and "partition" in body["case"]:
        vs = [v for v in mod.run_item(body["case"]["partition"]).violations if v["kind"] == body["case"]["kind"]]
    else:
        vs = mod.replay(body["case"])
    hit = [v for v in vs if v["kind"] == body.get("kind", v["kind"])] or vs
    if hit:
        print(f"VIOLATION property={mod.ID} replay={path}")
        v = hit[0]
        sys.stderr.write(f"  {v['kind']}: {v.get('msg', '')}\n    expected={v.get('expected')!r}\n    observed={v.get('observed')!r}\n")
        return 1
    print(f"{mod.ID} replay of {path}: property holds on this case")
    return 0


def _write_evidence(mod, tier, seed, desc, total: Result, samples, outcomes, capped, n_items, n_done, t0, violations,
                    known=0, note=None):
    os.makedirs(EVIDENCE_DIR, exist_ok=True)
    exhaustive = bool(desc.get("exhaustive", True)) and not capped and n_done == n_items
    cov = {
        "evaluations": total.evaluations,
        "distinct_nontrivial": total.nontrivial,
        "rule": desc["rule"],
        "samples": samples[:6],
        "states": total.states,
        "transitions": total.transitions,
        "traces_validated_against_impl": total.traces,
        "exhaustive": exhaustive,
        "bounds": desc.get("bounds", {}),
        "partitions_planned": n_items,
        "partitions_completed": n_done,
        "capped": capped,
        "distinct_outcomes": len(outcomes),
        "counters": dict(sorted(total.stats.items())),
        "engine": mod.ENGINE,
    }
    if note:
        cov["note"] = note
    ev = {
        "property_id": mod.ID, "tier": tier, "seed": seed, "level": "model_checking", "coverage": cov,
        "assumptions": desc.get("assumptions", []),
        "wall_s": round(time.time() - t0, 3), "violations": violations, "known_findings_seen": known,
    }
    with open(os.path.join(EVIDENCE_DIR, f"{mod.ID}.json"), "w", encoding="utf-8") as f:
        json.dump(ev, f, indent=1, ensure_ascii=False, default=repr)
