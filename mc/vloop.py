"""
E3: stateless schedule exploration on a virtual asyncio event loop.

ahbicht uses no timers, locks, queues or I/O.  The only scheduling nondeterminism a real event loop can show this code is
WHICH of the user-supplied awaitables completes in WHICH loop iteration and in what order.  The harness owns exactly that:
every harness evaluator suspends on a future created by `Sched.point(label)`; the explorer decides when each completes.

One execution = one sequence of decisions taken at iteration boundaries:
    * ready queue non-empty:  option 0 = run one loop iteration (the handles that are ready now, FIFO, like
      BaseEventLoop._run_once), options 1.. = complete pending future j EARLY (before the ready handles ran; two futures
      completed at the same boundary = a batch within one iteration);
    * ready queue empty (quiescence):  options = complete pending future j (0 = the oldest).
Deviations from the default (always option 0) are counted in two classes: 'order' (j > 0 at quiescence) and 'early'
(completion while handles are ready); each class has its own bound (None = unbounded = all completion orders).

`asyncio.as_completed` is replaced by a variant that creates its tasks in input order (the stock one iterates a SET of the
awaitables: address order, which nothing can own); `asyncio.wait`'s result sets stay as they are - code that depends on
their iteration order shows up as a replay divergence (harness error), not as a verdict.

Depth-first enumeration of all decision sequences within the bounds; every schedule is replayed from scratch on a fresh
loop.  A replayed prefix that meets a different number of options is a hard error (nondeterminism not owned).
"""
import asyncio
import contextvars
from asyncio import events


class ScheduleError(Exception):
    """deadlock, horizon exceeded or non-deterministic replay: harness errors, never reported as property violations"""


class VLoop(asyncio.BaseEventLoop):
    """an event loop without selector and without real time"""

    def __init__(self):
        super().__init__()
        self._vtime = 0.0
        self.exceptions = []
        self.set_exception_handler(lambda loop, ctx: self.exceptions.append(ctx))

    def time(self):
        return self._vtime

    def _process_events(self, event_list):
        pass

    def _write_to_self(self):
        pass

    def run_iteration(self):
        """run the handles that are ready now (FIFO); handles scheduled meanwhile wait for the next iteration"""
        n = len(self._ready)
        for _ in range(n):
            h = self._ready.popleft()
            if not h._cancelled:
                h._run()
        return n


class Sched:
    """what the harness evaluators talk to"""

    def __init__(self, loop):
        self.loop = loop
        self.pending = []  # [(label, future)] in creation order
        self.completed = []  # labels in completion order
        self.created = 0

    async def point(self, label):
        fut = self.loop.create_future()
        self.pending.append((label, fut))
        self.created += 1
        await fut


def _ordered_as_completed(fs, *, timeout=None):
    """asyncio.as_completed with the awaitables wrapped into tasks in INPUT order.  The stock function builds a set of the
    awaitables first, so the order in which their tasks are created (= FIFO order inside one loop iteration) follows object
    addresses: a source of nondeterminism no scheduler can own.  Input order is one of the orders a real run can show, so
    every execution explored here is a real execution; results are still delivered in completion order."""
    from asyncio import Queue, ensure_future

    if timeout is not None:
        raise ScheduleError("as_completed with a timeout is not modelled")
    loop = events.get_event_loop()
    done = Queue()
    todo = [ensure_future(f, loop=loop) for f in dict.fromkeys(fs)]

    def _on_completion(f):
        if f in todo:
            todo.remove(f)
            done.put_nowait(f)

    async def _wait_for_one():
        f = await done.get()
        return f.result()

    for f in list(todo):
        f.add_done_callback(_on_completion)
    for _ in range(len(todo)):
        yield _wait_for_one()


class Execution:
    __slots__ = ("result", "exception", "decisions", "completion_order", "iterations", "loop_exceptions", "created")


def run_schedule(main_factory, choices, horizon=20000):
    """runs main_factory(sched) -> coroutine under the decision prefix `choices` (then defaults).
    returns Execution; decisions = [(n_options, chosen, cls)] with cls in {'run', 'order', 'early'}"""
    loop = VLoop()
    sched = Sched(loop)
    ex = Execution()
    ex.decisions = []
    ex.iterations = 0
    prev = events._get_running_loop()
    events._set_running_loop(loop)
    stock_as_completed = asyncio.as_completed
    asyncio.as_completed = _ordered_as_completed
    try:
        ctx = contextvars.copy_context()
        task = ctx.run(lambda: loop.create_task(main_factory(sched)))
        k = 0
        steps = 0
        while not task.done():
            steps += 1
            if steps > horizon:
                raise ScheduleError("step horizon exceeded (livelock?)")
            # a harness future whose awaiting task was cancelled by the implementation is no longer pending
            if any(f.done() for _l, f in sched.pending):
                sched.pending = [(l, f) for l, f in sched.pending if not f.done()]
            has_ready = bool(loop._ready)
            n_opts = (1 if has_ready else 0) + len(sched.pending)
            if n_opts == 0:
                # the implementation may have handed work to a thread (run_in_executor): its completion arrives through
                # call_soon_threadsafe; wait for it (bounded) before calling the situation a deadlock
                import time as _time

                t_end = _time.time() + 3.0
                while not loop._ready and _time.time() < t_end:
                    _time.sleep(0.0005)
                if loop._ready:
                    continue
                raise ScheduleError("deadlock: nothing ready, nothing pending, main task not done")
            if k < len(choices):
                c = choices[k]
                if c >= n_opts:
                    raise ScheduleError(f"replay divergence at decision {k}: {n_opts} options, prefix wants {c}")
            else:
                c = 0
            if has_ready and c == 0:
                cls = "run"
            elif has_ready:
                cls = "early"
            else:
                cls = "order"
            ex.decisions.append((n_opts, c, cls))
            k += 1
            if cls == "run":
                loop.run_iteration()
                ex.iterations += 1
            else:
                j = c - 1 if has_ready else c
                label, fut = sched.pending.pop(j)
                sched.completed.append(label)
                fut.set_result(None)
        # drain what is left (callbacks of finished tasks)
        for _ in range(50):
            if not loop._ready:
                break
            loop.run_iteration()
        ex.exception = None
        ex.result = None
        if task.cancelled():
            ex.exception = asyncio.CancelledError()
        elif task.exception() is not None:
            ex.exception = task.exception()
        else:
            ex.result = task.result()
        ex.completion_order = list(sched.completed)
        ex.loop_exceptions = list(loop.exceptions)
        ex.created = sched.created
        return ex
    finally:
        asyncio.as_completed = stock_as_completed
        events._set_running_loop(prev)
        # cancel whatever is still pending so that no "was never awaited"/"pending task destroyed" noise appears
        try:
            for t in asyncio.all_tasks(loop):
                t.cancel()
            for _ in range(20):
                if not loop._ready:
                    break
                loop.run_iteration()
        except Exception:  # pylint:disable=broad-except
            pass
        loop.close()


class Exploration:
    def __init__(self):
        self.schedules = 0
        self.decision_points = 0
        self.choice_points = 0  # decision points with > 1 option
        self.max_pending = 0
        self.completion_traces = set()
        self.outcomes = {}
        self.first_schedule_of_outcome = {}
        self.capped = False


def explore(main_factory, observe, order_bound=None, early_bound=0, max_schedules=None, horizon=20000):
    """depth-first enumeration of all decision sequences within the deviation bounds.
    observe(execution) -> hashable outcome.  Returns Exploration."""
    exp = Exploration()
    stack = [[]]
    while stack:
        prefix = stack.pop()
        ex = run_schedule(main_factory, prefix, horizon)
        exp.schedules += 1
        exp.decision_points += len(ex.decisions)
        exp.choice_points += sum(1 for n, _c, _k in ex.decisions if n > 1)
        exp.completion_traces.add(tuple(ex.completion_order))
        out = observe(ex)
        if out not in exp.outcomes:
            exp.outcomes[out] = 0
            exp.first_schedule_of_outcome[out] = [c for _n, c, _k in ex.decisions]
        exp.outcomes[out] += 1
        if max_schedules is not None and exp.schedules >= max_schedules:
            exp.capped = bool(stack)
            break
        # branch on every decision after the prefix
        order_used = early_used = 0
        chosen = [c for _n, c, _k in ex.decisions]
        for i, (n, c, cls) in enumerate(ex.decisions):
            if i >= len(prefix):
                has_ready = cls in ("run", "early")
                for alt in range(1, n):
                    alt_cls = "early" if has_ready else "order"
                    if alt_cls == "order" and order_bound is not None and order_used + 1 > order_bound:
                        continue
                    if alt_cls == "early" and early_bound is not None and early_used + 1 > early_bound:
                        continue
                    stack.append(chosen[:i] + [alt])
            if cls == "order" and c > 0:
                order_used += 1
            elif cls == "early":
                early_used += 1
    return exp
