"""Command line front end: ./check CNN [--tier quick|thorough] [--replay path] [--jobs N] | --selftest | --list"""
import argparse
import importlib
import os
import sys


def main(argv=None) -> int:
    ap = argparse.ArgumentParser(prog="check")
    ap.add_argument("prop", nargs="?")
    ap.add_argument("--tier", default=os.environ.get("VERIF_TIER") or "quick", choices=["quick", "thorough"])
    ap.add_argument("--replay")
    ap.add_argument("--jobs", type=int, default=int(os.environ.get("VERIF_JOBS", "0") or 0) or (os.cpu_count() or 4))
    ap.add_argument("--selftest", action="store_true")
    ap.add_argument("--list", action="store_true")
    args = ap.parse_args(argv)
    seed = int(os.environ.get("VERIF_SEED", "0") or 0)
    src = os.environ.get("VERIF_REPO", "/repo") + "/src"
    if src not in sys.path:
        sys.path.insert(0, src)
    if args.selftest:
        from mc import selftest

        return selftest.main()
    if args.list:
        for f in sorted(os.listdir(os.path.join(os.path.dirname(__file__), "..", "checks"))):
            if f.startswith("c") and f.endswith(".py"):
                print(f[:-3].upper())
        return 0
    if not args.prop:
        ap.error("property id required")
    mod = importlib.import_module("checks." + args.prop.lower())
    from mc import runner

    if args.replay:
        return runner.run_replay(mod, args.replay)
    return runner.run_check(mod, args.tier, seed, args.jobs)


if __name__ == "__main__":
    sys.exit(main())
