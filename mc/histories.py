"""
E2: explicit-state breadth-first search over operation histories on the REAL code.

A state is identified with a history reaching it (live objects rarely copy): every transition replays the whole history
from scratch through `execute(history) -> (canonical_state, violations, enabled_ops)`.  States are deduplicated by their
canonical form; the invariant is evaluated in every state by `execute` itself.
"""
import collections


class BfsResult:
    def __init__(self):
        self.states = 0
        self.transitions = 0
        self.max_depth = 0
        self.histories = 0
        self.violations = []  # (history, violation)
        self.samples = []
        self.deduplicated = 0


def bfs(execute, prefix, max_depth, op_filter=None, stop_after_violations=20):
    """explore all histories that extend `prefix` (a list of ops) up to length max_depth.

    execute(history) must be deterministic and return (canon, violations, enabled_ops);
    op_filter(history, op) -> bool allows deviation-bounded exploration (e.g. at most one flood / k edits)."""
    res = BfsResult()
    seen = set()
    frontier = collections.deque()
    canon, viol, ops = execute(list(prefix))
    res.transitions += max(1, len(prefix))
    res.histories += 1
    seen.add(canon)
    res.states += 1
    for v in viol:
        res.violations.append((list(prefix), v))
    frontier.append((list(prefix), ops))
    res.samples.append(list(prefix))
    while frontier:
        hist, ops = frontier.popleft()
        if len(hist) >= max_depth:
            continue
        for op in ops:
            if op_filter is not None and not op_filter(hist, op):
                continue
            nxt = hist + [op]
            canon, viol, nops = execute(nxt)
            res.transitions += 1
            res.histories += 1
            res.max_depth = max(res.max_depth, len(nxt))
            for v in viol:
                res.violations.append((nxt, v))
            if len(res.violations) >= stop_after_violations:
                return res
            if canon in seen:
                res.deduplicated += 1
                continue
            seen.add(canon)
            res.states += 1
            if len(res.samples) < 3 or (len(nxt) == max_depth and len(res.samples) < 5):
                res.samples.append(nxt)
            frontier.append((nxt, nops))
    return res
