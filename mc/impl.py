"""
The ONLY module that imports ahbicht.  It
  * makes sure the sources under /repo/src (the current working tree) are what is executed,
  * silences logging (ahbicht logs a traceback per syntax error),
  * configures `inject` once per process with harness-owned evaluators whose answers are read, at call time, from
    the per-execution environment `Env` held in a ContextVar (so concurrent evaluations can have their own data),
  * offers small helpers to run coroutines and to convert Lark trees to plain tuples.

The evaluators are subclasses of the library's abstract RcEvaluator / FcEvaluator / HintsProvider / PackageResolver:
the library's own evaluate_conditions / evaluate_format_constraints / get_hints code (gather + zip) is what runs.
"""
from __future__ import annotations

import asyncio
import contextvars
import logging
import os
import sys
from typing import Any, Callable, Dict, Optional

_REPO_SRC = os.environ.get("VERIF_REPO", "/repo") + "/src"
if _REPO_SRC not in sys.path:
    sys.path.insert(0, _REPO_SRC)
logging.disable(logging.CRITICAL)

import ahbicht.content_evaluation  # noqa: E402  (must be first: circular imports otherwise)
import ahbicht  # noqa: E402

_src = os.path.realpath(os.path.dirname(ahbicht.__file__))
if not _src.startswith(os.path.realpath(_REPO_SRC)):
    raise RuntimeError(f"ahbicht is imported from {_src}, not from the working tree under {_REPO_SRC}")

import inject  # noqa: E402
from efoli import EdifactFormat, EdifactFormatVersion  # noqa: E402
from lark import Token, Tree  # noqa: E402

from ahbicht.content_evaluation import is_valid_expression  # noqa: E402
from ahbicht.content_evaluation.evaluationdatatypes import (  # noqa: E402
    EvaluatableData,
    EvaluatableDataProvider,
    EvaluationContext,
)
from ahbicht.content_evaluation.fc_evaluators import FcEvaluator, text_to_be_evaluated_by_format_constraint  # noqa: E402
from ahbicht.content_evaluation.rc_evaluators import RcEvaluator  # noqa: E402
from ahbicht.content_evaluation.token_logic_provider import SingletonTokenLogicProvider, TokenLogicProvider  # noqa: E402
from ahbicht.expressions import InvalidExpressionError  # noqa: E402
from ahbicht.expressions.ahb_expression_evaluation import evaluate_ahb_expression_tree  # noqa: E402
from ahbicht.expressions.ahb_expression_parser import (  # noqa: E402
    parse_ahb_expression_to_single_requirement_indicator_expressions,
)
from ahbicht.expressions.condition_expression_parser import (  # noqa: E402
    extract_categorized_keys,
    extract_categorized_keys_from_tree,
    parse_condition_expression_to_tree,
)
from ahbicht.expressions.expression_resolver import (  # noqa: E402
    expand_packages,
    expand_time_conditions,
    parse_expression_including_unresolved_subexpressions,
)
from ahbicht.expressions.format_constraint_expression_evaluation import (  # noqa: E402
    evaluate_format_constraint_tree,
    format_constraint_evaluation,
)
from ahbicht.expressions.hints_provider import HintsProvider  # noqa: E402
from ahbicht.expressions.package_expansion import PackageResolver  # noqa: E402
from ahbicht.expressions.requirement_constraint_expression_evaluation import (  # noqa: E402
    evaluate_requirement_constraint_tree,
    requirement_constraint_evaluation,
)
from ahbicht.models.condition_nodes import (  # noqa: E402
    ConditionFulfilledValue,
    EvaluatedFormatConstraint,
    Hint,
    RequirementConstraint,
    UnevaluatedFormatConstraint,
)
from ahbicht.models.mapping_results import PackageKeyConditionExpressionMapping  # noqa: E402

import attrs  # noqa: E402


@attrs.define(auto_attribs=True, kw_only=True)
class UserHint(Hint):
    """callers may hand in instances of their own subclasses of the node classes"""


@attrs.define(auto_attribs=True, kw_only=True)
class UserRequirementConstraint(RequirementConstraint):
    """see UserHint"""


CFV = ConditionFulfilledValue
STATE = {"F": CFV.FULFILLED, "U": CFV.UNFULFILLED, "?": CFV.UNKNOWN, "N": CFV.NEUTRAL}
STATE_NAME = {v: k for k, v in STATE.items()}

FMT = EdifactFormat.UTILMD
FMTV = EdifactFormatVersion.FV2210


class Env:
    """Environment answers for one execution.
    rc:       key -> 'F' | 'U' | '?'            (missing key => the evaluator has no method => NotImplementedError)
    fc:       key -> (bool, message|None)  or  callable(text) -> (bool, message|None)
    hints:    key -> text
    packages: key ('12P') -> expression | None
    yielder:  optional async callable(kind, key) awaited by every harness evaluator before answering (E3)
    sync:     set of ('rc'|'fc', key) answered by a *synchronous* evaluation method
    """

    __slots__ = ("rc", "fc", "hints", "packages", "yielder", "sync", "log", "tag")

    def __init__(self, rc=None, fc=None, hints=None, packages=None, yielder=None, sync=(), tag=None):
        self.rc = rc or {}
        self.fc = fc or {}
        self.hints = hints or {}
        self.packages = packages or {}
        self.yielder = yielder
        self.sync = set(sync)
        self.log = []
        self.tag = tag


ENV: contextvars.ContextVar[Optional[Env]] = contextvars.ContextVar("verif_env", default=None)


def _env() -> Env:
    e = ENV.get()
    if e is None:
        raise RuntimeError("harness error: no Env set")
    return e


class HarnessRcEvaluator(RcEvaluator):
    edifact_format = FMT
    edifact_format_version = FMTV

    def _get_default_context(self) -> EvaluationContext:
        return EvaluationContext(scope=None)

    def get_evaluation_method(self, condition_key: str) -> Optional[Callable]:
        env = _env()
        if condition_key not in env.rc:
            return None
        if ("rc", condition_key) in env.sync or env.yielder is None:

            def sync_method(evaluatable_data, context):
                body: Env = evaluatable_data.body
                return STATE[body.rc[condition_key]]

            return sync_method

        async def async_method(evaluatable_data, context):
            body: Env = evaluatable_data.body
            await body.yielder("rc", condition_key)
            return STATE[body.rc[condition_key]]

        return async_method


def _fc_answer(env: Env, key: str, text):
    v = env.fc[key]
    if callable(v):
        v = v(text)
    return EvaluatedFormatConstraint(format_constraint_fulfilled=v[0], error_message=v[1])


class HarnessFcEvaluator(FcEvaluator):
    edifact_format = FMT
    edifact_format_version = FMTV

    def get_evaluation_method(self, condition_key: str) -> Optional[Callable]:
        env = _env()
        if condition_key not in env.fc:
            # fall back to the library's predefined evaluate_93x methods
            return super().get_evaluation_method(condition_key)
        if ("fc", condition_key) in env.sync or env.yielder is None:

            def sync_method(text):
                return _fc_answer(_env(), condition_key, text)

            return sync_method

        async def async_method(text):
            e = _env()
            await e.yielder("fc", condition_key)
            # the text was read by the library BEFORE the yield and handed in; the answer is computed from it
            return _fc_answer(e, condition_key, text)

        return async_method


class HarnessHintsProvider(HintsProvider):
    edifact_format = FMT
    edifact_format_version = FMTV

    async def get_hint_text(self, condition_key: str) -> Optional[str]:
        env = _env()
        if env.yielder is not None:
            await env.yielder("hint", condition_key)
        return env.hints.get(condition_key)


class HarnessSyncHintsProvider(HintsProvider):
    """a hints provider whose get_hint_text is a plain function (HintsProvider.get_hints has a separate code path for it)"""

    edifact_format = FMT
    edifact_format_version = FMTV

    def get_hint_text(self, condition_key: str) -> Optional[str]:  # pylint:disable=invalid-overridden-method
        return _env().hints.get(condition_key)


class HarnessPackageResolver(PackageResolver):
    edifact_format = FMT
    edifact_format_version = FMTV

    async def get_condition_expression(self, package_key: str) -> PackageKeyConditionExpressionMapping:
        env = _env()
        if env.yielder is not None:
            await env.yielder("pkg", package_key)
        return PackageKeyConditionExpressionMapping(
            package_key=package_key, package_expression=env.packages.get(package_key), edifact_format=FMT
        )


def _provide_evaluatable_data() -> EvaluatableData:
    return EvaluatableData(body=_env(), edifact_format=FMT, edifact_format_version=FMTV)


def sync_subset(keys):
    """which of the given keys are answered by PLAIN evaluate methods (the others by coroutine methods): positional in the
    numerically sorted key list, so that every expression with >= 2 keys mixes both kinds whatever the key numbers are, and
    both written orders (plain before coroutine and vice versa) occur across the enumerated expressions"""
    ks = sorted(set(keys), key=lambda k: (int(k), k))
    return {k for i, k in enumerate(ks) if (i + len(ks)) % 2 == 0}


_configured = False


def setup(sync_hints: bool = False):
    """configure inject once per process (sync_hints=True: reconfigure with the synchronous hints provider)"""
    global _configured
    if _configured and not sync_hints:
        return
    provider = SingletonTokenLogicProvider(
        [HarnessRcEvaluator(), HarnessFcEvaluator(), HarnessSyncHintsProvider() if sync_hints else HarnessHintsProvider(),
         HarnessPackageResolver()]
    )

    def configure(binder):
        binder.bind(TokenLogicProvider, provider)
        binder.bind_to_provider(EvaluatableDataProvider, _provide_evaluatable_data)

    inject.clear_and_configure(configure)
    _configured = not sync_hints


def reset_evaluators():
    """fresh harness evaluator / provider / resolver INSTANCES (state an implementation keeps on those long-lived objects must
    not leak from one explored execution into the next: every execution starts from the same initial state)"""
    global _configured
    _configured = False
    setup()


_loop: Optional[asyncio.AbstractEventLoop] = None


class ExecutionTimeout(BaseException):
    """one execution of the implementation did not terminate within the per-execution horizon"""


_timeout_s = [20.0]


def _on_alarm(signum, frame):
    raise ExecutionTimeout(f"no result after {_timeout_s[0]} s")


def run(coro, env: Optional[Env] = None, horizon: Optional[float] = None):
    """run a coroutine to completion on the process-wide stock event loop (used where nothing ever yields).
    Every execution has a horizon (CPU seconds, SIGPROF; plus a wall-clock backstop): an implementation that loops forever surfaces as ExecutionTimeout, which the
    checks see as an unexpected exception type.  After the first timeout the horizon of this process drops to 1 s."""
    global _loop
    if _loop is None or _loop.is_closed():
        _loop = asyncio.new_event_loop()
    import signal
    import threading

    use_alarm = threading.current_thread() is threading.main_thread()
    if use_alarm:
        # the horizon counts CPU time of this process (ITIMER_PROF): a machine under load must not turn a slow execution into a
        # timeout; a generous wall-clock timer on top catches an implementation that blocks without consuming CPU
        h = horizon if horizon is not None else _timeout_s[0]
        signal.signal(signal.SIGPROF, _on_alarm)
        signal.signal(signal.SIGALRM, _on_alarm)
        signal.setitimer(signal.ITIMER_PROF, h)
        signal.setitimer(signal.ITIMER_REAL, max(120.0, 20 * h))
    try:
        if env is None:
            return _loop.run_until_complete(coro)
        ctx = contextvars.copy_context()

        def start():
            ENV.set(env)
            return _loop.create_task(coro)

        task = ctx.run(start)
        return _loop.run_until_complete(task)
    except ExecutionTimeout:
        _timeout_s[0] = 1.0
        try:
            _loop.close()
        except BaseException:  # pylint:disable=broad-except
            pass
        _loop = None
        raise
    finally:
        if use_alarm:
            signal.setitimer(signal.ITIMER_PROF, 0)
            signal.setitimer(signal.ITIMER_REAL, 0)


# ---------------------------------------------------------------------------------------------------------------------
# tree helpers
# ---------------------------------------------------------------------------------------------------------------------
def tree_to_tuple(t) -> Any:
    """Lark Tree/Token -> nested tuples: ('rule', child, ...) / ('TOKEN_TYPE', 'value'); anything else -> repr"""
    if isinstance(t, Tree):
        return (str(t.data),) + tuple(tree_to_tuple(c) for c in t.children)
    if isinstance(t, Token):
        return ("%" + str(t.type), str(t.value))
    return ("!other", repr(t))


def exc_name(e: BaseException) -> str:
    return type(e).__name__


def try_call(fn, *a, **kw):
    """returns ('ok', value) or ('exc', exact type name, is_SyntaxError_subclass)"""
    try:
        return ("ok", fn(*a, **kw))
    except BaseException as e:  # InvalidExpressionError derives from BaseException
        if isinstance(e, (KeyboardInterrupt, SystemExit)):
            raise
        return ("exc", type(e).__name__, e)
