"""
Injection modes: the same executions through the evaluators / providers / resolvers the LIBRARY ships (imports ahbicht).

  harness    the harness evaluators of mc.impl (default everywhere)
  hardcoded  evaluator_factory.create_hardcoded_evaluators(content_evaluation_result): DictBasedRcEvaluator,
             DictBasedFcEvaluator, DictBasedHintsProvider, DictBasedPackageResolver; re-created and re-injected per execution
  cer        evaluator_factory.create_content_evaluation_result_based_evaluators(): the four ContentEvaluationResultBased*
             classes, created once; the (dumped) content evaluation result travels in the EvaluatableData body, which the
             injected provider reads from a ContextVar at call time
  cer-shared the same, but the injected provider hands out ONE long-lived EvaluatableData object whose body is replaced before
             every execution (a provider is free to do that; nothing in the documentation asks for a fresh object per call)
  jsonfile   user-style method based RC / FC evaluators plus the library's JsonFileHintsProvider and JsonFilePackageResolver
             reading files written for this execution (package file alternately as dictionary and as list of mappings)
  formats-general-first / formats-specific-first   package resolver and hints provider registered for a general (UTILMD, decoy
             answers) and a specific format (UTILMDS, real answers) in one provider, in either order; data in the specific format
  methods    user-style evaluators: RcEvaluator / FcEvaluator subclasses with real evaluate_<key> methods that read
             PER-INSTANCE state; a new instance of the same classes is created and injected per execution
"""
import contextvars

import inject

from mc import impl as I

from ahbicht.content_evaluation.evaluationdatatypes import EvaluatableData, EvaluatableDataProvider, EvaluationContext  # noqa: E402
from ahbicht.content_evaluation.evaluator_factory import (  # noqa: E402
    create_content_evaluation_result_based_evaluators,
    create_hardcoded_evaluators,
)
from ahbicht.content_evaluation.fc_evaluators import FcEvaluator  # noqa: E402
from ahbicht.content_evaluation.rc_evaluators import RcEvaluator  # noqa: E402
from ahbicht.content_evaluation.token_logic_provider import SingletonTokenLogicProvider, TokenLogicProvider  # noqa: E402
from ahbicht.expressions.hints_provider import DictBasedHintsProvider, JsonFileHintsProvider  # noqa: E402
from ahbicht.expressions.package_expansion import DictBasedPackageResolver, JsonFilePackageResolver  # noqa: E402
from ahbicht.models.content_evaluation_result import ContentEvaluationResult, ContentEvaluationResultSchema  # noqa: E402

MODES = ("hardcoded", "cer", "methods", "cer-shared", "jsonfile")
_SHARED_DATA = None
_BODY = contextvars.ContextVar("verif_cer_body", default=None)
_cer_evaluators = None
_method_classes = {}


# content evaluation results may carry an id; nothing makes it unique (the library's own tests reuse one UUID for many
# results): every content evaluation result built here carries the SAME id
_CER_ID = __import__("uuid").UUID("d106f335-f663-4d14-9636-4f43a883ad26")


def make_cer(rc=None, fc=None, hints=None, packages=None):
    return ContentEvaluationResult(
        id=_CER_ID,
        hints=dict(hints or {}),
        format_constraints={k: I.EvaluatedFormatConstraint(format_constraint_fulfilled=v[0], error_message=v[1]) for k, v in (fc or {}).items()},
        requirement_constraints={k: I.STATE[v] for k, v in (rc or {}).items()},
        # "no packages" is written as None or as {} (Optional field), alternating with the number of requirement keys
        packages=(dict(packages) if packages else ({} if len(rc or {}) % 2 else None)),
    )


def _configure(evaluators, provider):
    def configure(binder):
        binder.bind(TokenLogicProvider, SingletonTokenLogicProvider([*evaluators]))
        binder.bind_to_provider(EvaluatableDataProvider, provider)

    inject.clear_and_configure(configure)
    I._configured = False  # the harness configuration is gone; mc.impl.setup() restores it


def _method_based(rc_keys, fc_keys):
    """classes with generated evaluate_<key> methods (cached per key set); the methods read self.state"""
    sig = (tuple(sorted(rc_keys)), tuple(sorted(fc_keys)))
    if sig not in _method_classes:
        def use_context(key, context):
            # user methods may work with the EvaluationContext they are handed (narrow its scope, ...): every key's method gets
            # the context that was built FOR IT (RcEvaluator._get_default_context per key), not one touched by another key
            if context is not None:
                if context.scope is not None:
                    raise RuntimeError(f"the context handed to evaluate_{key} was already used for key {context.scope}")
                context.scope = key

        def rc_method(key, is_async):
            if is_async:
                async def evaluate(self, evaluatable_data, context):
                    use_context(key, context)
                    return I.STATE[self.state[key]]
            else:
                def evaluate(self, evaluatable_data, context):
                    use_context(key, context)
                    return I.STATE[self.state[key]]
            return evaluate

        def fc_method(key, is_async):
            if is_async:
                async def evaluate(self, entered_input):
                    v = self.state[key]
                    return I.EvaluatedFormatConstraint(format_constraint_fulfilled=v[0], error_message=v[1])
            else:
                def evaluate(self, entered_input):
                    v = self.state[key]
                    return I.EvaluatedFormatConstraint(format_constraint_fulfilled=v[0], error_message=v[1])
            return evaluate

        def init(self, state):
            self.state = state
            super(type(self), self).__init__()

        rc_ns = {f"evaluate_{k}": rc_method(k, k not in I.sync_subset(sig[0])) for k in sig[0]}
        rc_ns.update(edifact_format=I.FMT, edifact_format_version=I.FMTV, __init__=init,
                     _get_default_context=lambda self: EvaluationContext(scope=None))
        fc_ns = {f"evaluate_{k}": fc_method(k, k not in I.sync_subset(sig[1])) for k in sig[1]}
        fc_ns.update(edifact_format=I.FMT, edifact_format_version=I.FMTV, __init__=init)
        _method_classes[sig] = (type("UserRcEvaluator", (RcEvaluator,), rc_ns), type("UserFcEvaluator", (FcEvaluator,), fc_ns))
    return _method_classes[sig]


def run(mode, make_coro, rc=None, fc=None, hints=None, packages=None):
    """runs make_coro() to completion with the given environment answers delivered through `mode`"""
    global _cer_evaluators
    if mode == "harness":
        I.setup()
        return I.run(make_coro(), I.Env(rc=rc, fc=fc, hints=hints, packages=packages))
    if mode == "hardcoded":
        evaluators = create_hardcoded_evaluators(make_cer(rc, fc, hints, packages or {}), I.FMT, I.FMTV)
        _configure(evaluators, lambda: EvaluatableData(body=None, edifact_format=I.FMT, edifact_format_version=I.FMTV))
        return I.run(make_coro(), I.Env())
    if mode == "cer":
        if _cer_evaluators is None:
            _cer_evaluators = create_content_evaluation_result_based_evaluators(I.FMT, I.FMTV)
        _configure(_cer_evaluators, lambda: EvaluatableData(body=_BODY.get(), edifact_format=I.FMT, edifact_format_version=I.FMTV))
        body = ContentEvaluationResultSchema().dump(make_cer(rc, fc, hints, packages or {}))
        ctx = contextvars.copy_context()

        def go():
            _BODY.set(body)
            return I.run(make_coro(), I.Env())

        return ctx.run(go)
    if mode == "cer-shared":
        global _SHARED_DATA
        if _cer_evaluators is None:
            _cer_evaluators = create_content_evaluation_result_based_evaluators(I.FMT, I.FMTV)
        if _SHARED_DATA is None:
            _SHARED_DATA = EvaluatableData(body=None, edifact_format=I.FMT, edifact_format_version=I.FMTV)
        _configure(_cer_evaluators, lambda: _SHARED_DATA)
        _SHARED_DATA.body = ContentEvaluationResultSchema().dump(make_cer(rc, fc, hints, packages or {}))
        return I.run(make_coro(), I.Env())
    if mode.startswith("formats-"):
        # ONE provider serving a general format (UTILMD, decoy answers) and a specific one (UTILMDS, the real answers), registered in
        # either order; the evaluatable data is in the specific format
        from efoli import EdifactFormat

        def both(cls, real_arg, decoy_arg):
            real, decoy = cls(real_arg), cls(decoy_arg)
            real.edifact_format, real.edifact_format_version = EdifactFormat.UTILMDS, I.FMTV
            decoy.edifact_format, decoy.edifact_format_version = EdifactFormat.UTILMD, I.FMTV
            return [decoy, real] if mode == "formats-general-first" else [real, decoy]

        evaluators = both(DictBasedPackageResolver, dict(packages or {}), {k: "[998]" for k in (packages or {})}) + \
            both(DictBasedHintsProvider, dict(hints or {}), {k: "falscher Hinweis" for k in (hints or {})})
        _configure(evaluators, lambda: EvaluatableData(body=None, edifact_format=EdifactFormat.UTILMDS, edifact_format_version=I.FMTV))
        return I.run(make_coro(), I.Env())
    if mode in ("methods", "jsonfile"):
        rc_cls, fc_cls = _method_based(list((rc or {}).keys()), list((fc or {}).keys()))
        if mode == "jsonfile":
            import json
            import os
            import pathlib
            import tempfile

            with tempfile.TemporaryDirectory(prefix="verif-jsonfile-") as d:
                hp_path, pk_path = pathlib.Path(d) / "hints.json", pathlib.Path(d) / "packages.json"
                hp_path.write_text(json.dumps(dict(hints or {})), encoding="utf-8")
                table = dict(packages or {})
                as_list = len(json.dumps(table)) % 2 == 1
                pk_path.write_text(json.dumps([{"package_key": k, "package_expression": v, "edifact_format": I.FMT.name}
                                               for k, v in table.items()] if as_list and table else table), encoding="utf-8")
                hp = JsonFileHintsProvider(I.FMT, I.FMTV, hp_path)
                pr = JsonFilePackageResolver(I.FMT, I.FMTV, pk_path)
        else:
            hp = DictBasedHintsProvider(dict(hints or {}))
            pr = DictBasedPackageResolver(dict(packages or {}))
            for x in (hp, pr):
                x.edifact_format, x.edifact_format_version = I.FMT, I.FMTV
        _configure([rc_cls(dict(rc or {})), fc_cls(dict(fc or {})), hp, pr],
                   lambda: EvaluatableData(body=None, edifact_format=I.FMT, edifact_format_version=I.FMTV))
        return I.run(make_coro(), I.Env())
    raise ValueError(mode)


def restore():
    I.setup()


def run_is_valid_cer(expr):
    """is_valid_expression(expr, setter) through the library's ContentEvaluationResult-based evaluators; the setter writes the
    dumped content evaluation result where the injected EvaluatableData provider finds it (the documented usage)"""
    global _cer_evaluators
    if _cer_evaluators is None:
        _cer_evaluators = create_content_evaluation_result_based_evaluators(I.FMT, I.FMTV)
    _configure(_cer_evaluators, lambda: EvaluatableData(body=_BODY.get(), edifact_format=I.FMT, edifact_format_version=I.FMTV))
    schema = ContentEvaluationResultSchema()

    def setter(cer):
        _BODY.set(schema.dump(cer))

    return I.run(I.is_valid_expression(expr, setter), I.Env())


_VERSION_NOW = [None]


def run_versions(make_coro, rc_by_version, sequence, hints=None, fc_by_version=None, packages_by_version=None):
    """ONE token logic provider holding user-style RC evaluators for two format versions of the same format (answers
    rc_by_version[0] / [1]); the evaluations of `sequence` (version indices) run one after another, the evaluatable data
    handed out by the injected provider carries the version of the evaluation.  returns the list of results"""
    from efoli import EdifactFormatVersion

    versions = [EdifactFormatVersion.FV2104, EdifactFormatVersion.FV2210]
    evaluators = []
    for v in (0, 1):
        rc_cls, fc_cls = _method_based(list(rc_by_version[v].keys()), list((fc_by_version or [{}, {}])[v].keys()))
        rc = rc_cls(dict(rc_by_version[v]))
        rc.edifact_format_version = versions[v]
        if packages_by_version is not None:
            pr = DictBasedPackageResolver(dict(packages_by_version[v]))
            pr.edifact_format, pr.edifact_format_version = I.FMT, versions[v]
            evaluators.append(pr)
        if fc_by_version is not None:
            fc = fc_cls(dict(fc_by_version[v]))
            fc.edifact_format_version = versions[v]
            evaluators.append(fc)
        hp = DictBasedHintsProvider(dict(hints or {}))
        hp.edifact_format, hp.edifact_format_version = I.FMT, versions[v]
        evaluators += [rc, hp]
    _configure(evaluators, lambda: EvaluatableData(body=None, edifact_format=I.FMT, edifact_format_version=_VERSION_NOW[0]))
    out = []
    for v in sequence:
        _VERSION_NOW[0] = versions[v]
        out.append(I.try_call(lambda: I.run(make_coro(), I.Env())))
    return out
