"""setup_cmd: ./check --selftest
  1. byte-compiles /verif/mc and /verif/checks (syntax),
  2. validates MANIFEST.json and known_findings.json (schemas through python3-vt's jsonschema if available),
  3. runs the canaries under /verif/selftest: harnesses that MUST fail (a harness that cannot fail is not trusted).
Exit 0 iff everything is as expected.
"""
import compileall
import importlib
import json
import os
import subprocess
import sys

VERIF = os.path.dirname(os.path.dirname(os.path.abspath(__file__)))


def _validate_with_vt(schema_path, doc_path):
    code = (
        "import json,sys,jsonschema;"
        "s=json.load(open(sys.argv[1]));d=json.load(open(sys.argv[2]));"
        "jsonschema.validate(d,s);print('ok')"
    )
    try:
        p = subprocess.run(["python3-vt", "-c", code, schema_path, doc_path], capture_output=True, text=True, timeout=60)
    except FileNotFoundError:
        return None
    return p.returncode == 0, p.stdout + p.stderr


def main() -> int:
    ok = True
    for d in ("mc", "checks", "selftest"):
        if not compileall.compile_dir(os.path.join(VERIF, d), quiet=1, force=True, legacy=False, workers=1):
            print(f"selftest: byte-compilation of {d} failed")
            ok = False
    # manifest
    mpath = os.path.join(VERIF, "MANIFEST.json")
    man = json.load(open(mpath, encoding="utf-8"))
    props = [json.loads(l)["id"] for l in open(os.path.join(VERIF, "properties.jsonl"), encoding="utf-8")]
    claimed = [c["property_id"] for c in man["checks"]]
    na = [c["property_id"] for c in man.get("not_applicable", [])]
    if sorted(claimed + na) != sorted(props):
        print("selftest: MANIFEST does not account for every property exactly once", sorted(set(props) - set(claimed + na)))
        ok = False
    schema = "/root/.vp/MANIFEST.schema.json"
    if os.path.exists(schema):
        r = _validate_with_vt(schema, mpath)
        if r is not None and not r[0]:
            print("selftest: MANIFEST.json does not validate:", r[1][-500:])
            ok = False
    # known findings
    kf = json.load(open(os.path.join(VERIF, "known_findings.json"), encoding="utf-8"))
    for f in kf["findings"]:
        if f.get("status") not in ("known", "fixed") or f.get("property") not in props or not f.get("signature"):
            print("selftest: malformed known finding", f)
            ok = False
    # every claimed check imports and offers the interface
    for pid in claimed:
        mod = importlib.import_module("checks." + pid.lower())
        for attr in ("ID", "ENGINE", "plan", "run_item", "replay", "describe"):
            if not hasattr(mod, attr):
                print(f"selftest: checks/{pid.lower()}.py lacks {attr}")
                ok = False
    # canaries
    cdir = os.path.join(VERIF, "selftest")
    for f in sorted(os.listdir(cdir)):
        if f.startswith("canary_") and f.endswith(".py"):
            mod = importlib.import_module("selftest." + f[:-3])
            try:
                good, text = mod.run()
            except BaseException as e:  # pylint:disable=broad-except
                good, text = False, f"raised {type(e).__name__}: {e}"
            print(f"selftest: {f[:-3]}: {'ok' if good else 'FAILED'} - {text}")
            ok = ok and good
    print("selftest:", "ok" if ok else "FAILED")
    return 0 if ok else 1


if __name__ == "__main__":
    sys.exit(main())
